"""C01 -- TAL statements render with the language semantics, in one fixed
order, independent of the order in which the attributes are written."""
from __future__ import annotations

import ast
import re

from .. import absint as A
from .. import lib as L
from ..core import AnalysisError, src

COMP = "chameleon.compiler.Compiler."
VE = "chameleon.zpt.program.MacroProgram.visit_element"

GUARD_RE = re.compile(r"has ns\[\((\w+), '([\w-]+)'\)\]")


def stmt_of(step):
    """statement key a wrapper step belongs to"""
    g = step["guard"]
    if g is None:
        return None
    m = GUARD_RE.search(g)
    if m:
        return m.group(2)
    if "switch is None" in g or "switch is not None" in g:
        return "switch"
    return g


def applied_when_present(step):
    g = step["guard"] or ""
    pol = step["polarity"]
    if "switch is None" in g:
        return not pol
    return pol


def run(repo, rep, tier):
    rep.explanation = (
        "The order in which TAL statements take effect is the nesting of "
        "node wrappers that MacroProgram.visit_element builds, plus the "
        "order of emission inside each statement emitter.  visit_element is "
        "interpreted abstractly: every wrapper variable is resolved to "
        "'skip' or a node constructor guarded by one statement key, and "
        "wrap(...) is unrolled, giving the nesting for every subset of "
        "statements at once (2^11 combinations in one tree).  The rules pin "
        "the documented order (definitions outside guards, condition outside "
        "repeat, guards outside content/replace/element, omit-tag and "
        "attributes inside the element), the construction chain of the "
        "element (what 'default' keeps), and that statement attributes are "
        "consumed by keyed lookup only (order independence).  The emitters "
        "of Define/Condition/Repeat/Element/Cache/Cancel/Content are checked "
        "for their skeletons.")
    rep.assumptions = [
        "Compiler.visit dispatches on node class names",
        "docs/reference.rst order table is the oracle where code and docs "
        "agree; the relative order of case/switch and the other guards is "
        "not pinned (docs and code disagree; the statement only says 'then "
        "the guards')",
    ]
    rep.rule("R01.1", "wrapper order: each statement maps to its node kind, "
                      "is applied iff present, and the pinned outer/inner "
                      "pairs hold")
    rep.rule("R01.2", "construction chain of the element: content -> element "
                      "-> omit condition on both tags + cache -> replace "
                      "wraps the whole element as its default")
    rep.rule("R01.3", "statement attributes are consumed only by keyed "
                      "lookup; loops over them have commuting bodies")
    rep.rule("R01.4", "emitter skeletons (define / condition / repeat / "
                      "element / cache / cancel)")
    rep.rule("R01.5", "None removes, default keeps: first tests of the "
                      "conversion routines; then/else of the default "
                      "condition; content appended only if not None")
    rep.rule("R01.6", "a node that reads a cached value is nested inside the "
                      "Cache that evaluates it")
    rep.rule("R01.7", "every whitelisted TAL statement is handled")
    rep.rule("R01.9", "G-LIVE: generated locals of the statement emitters "
                      "that live across the element body are per-node "
                      "(nested elements with the same statements do not "
                      "interfere)")

    func = repo.func(VE)
    res = L.emission(repo, VE)
    rep.count("functions_interpreted")
    steps, rest = element_chain(res)
    _order(rep, func, steps, rest)
    _chain(rep, func, steps, rest)
    _keyed(repo, rep, func)
    _skeletons(repo, rep)
    _nesting(repo, rep)
    # the statements' save/restore brackets and the scoping of names bound
    # inside expressions are what 'arbitrarily nested elements' and 'every
    # binding of its variables' rest on (C05 / C04 own these rules)
    from . import c05, c04
    L.borrow(repo, rep, "R01.9", "C05", c05.brackets,
             ("bracket-present", "restore-condition", "marker"))
    L.borrow(repo, rep, "R01.9", "C04", lambda r, p: c04._binders(
        r, p, handlers=False), ("shared-scope", "scope-leak", "empty-scope",
                                 "first-iterable-outside"))
    # 'exactly the text the language prescribes' for content, replacement
    # and attribute values of every value class (str, bytes, numbers,
    # markup objects): all paths of the conversion routine the sinks call
    # (C02 owns the path analysis)
    # tal:repeat walks a snapshot of its iterable (one-shot iterators, sized
    # objects whose __iter__ is a generator, lists changed by the loop body):
    # C08 owns the iterator-identity rules
    from . import c08
    L.borrow(repo, rep, "R01.4", "C08", c08._identity, ("materialise",))
    from . import c02
    L.borrow(repo, rep, "R01.5", "C02", lambda r, p: c02._quote_paths(
        r, p, tier), ("BAD", "class-missing"), minimum=3)
    # 'tal:attributes ... with default keeping the original markup': the
    # merge of statement entries into the static attribute list keeps every
    # other attribute where it was (C07 owns the merge rules)
    from . import c07
    L.borrow(repo, rep, "R01.5", "C07", c07._prepare,
             ("index:", "dynamic-merge", "keep-lexical"), minimum=4)
    _sinks(repo, rep)
    _cache_scope(repo, rep, func, res, steps)
    _tables(repo, rep, func)
    _parsers(repo, rep)
    # (C09 owns the element details)
    from . import c09 as _c09
    L.borrow(repo, rep, "R01.8", "C09", _c09.element_details,
             ("decode-which", "attrs-alias-first", "multipart-complete",
              "blank-clause-empty"))
    ds = repo.cls("chameleon.utils.DebuggingOutputStream").methods["append"]
    rs = [n for n in ast.walk(ds.node) if isinstance(n, ast.Raise)]
    okd = bool(rs)
    for r in rs:
        gs = [(src(t_), v_) for t_, v_ in L.guards_of(r, ds.node)
              if isinstance(t_, ast.expr)]
        if not L.cond_holds(gs, "isinstance(value, str)", False):
            okd = False
    rep.check(okd, "R01.5", ds.qualname, "the debugging output stream "
              "rejects what is NOT a string (with CHAMELEON_DEBUG every "
              "fragment passes here)", construct="debug-stream-guard",
              where=L.where(ds))
    # 'expr | default' / 'expr | nothing' keep or drop the markup when the
    # left side fails with a lookup-type error (C04 owns the table)
    L.borrow(repo, rep, "R01.5", "C04", c04._tables,
             ("pipe-exceptions", "exists-exceptions"), minimum=1)
    sup = [c for c in ast.walk(ds.node) if isinstance(c, ast.Call)
           and src(c.func) in ("super().append", "list.append")]
    rep.check(bool(sup), "R01.5", ds.qualname, "the debugging output stream "
              "stores what it has checked", construct="debug-stream-appends",
              where=L.where(ds))
    sa = repo.func("chameleon.zpt.program.MacroProgram."
                   "_create_static_attributes")
    sk = [n for n in ast.walk(sa.node) if isinstance(n, ast.If)
          and src(L._CanonIf._pos(n.test)[0]).replace(" ", "") in
          ("nameisNone", "name==None", "Noneisname", "None==name")]
    rep.check(bool(sk) and all(any(isinstance(x, ast.Continue)
                                   for x in n.body) for n in sk), "R01.5",
              sa.qualname, "the 'attrs' dictionary holds the named static "
              "attributes only (a nameless attribute-dictionary entry is "
              "skipped)", construct="attrs-named-only", where=L.where(sa))
    L.whitelist_rule(repo, rep, "R01.8", ("chameleon.tal",))
    # the indentation a repeated element starts with is that of its own
    # line (C08 owns the white-space rule); boolean attributes follow the
    # set the template was given (C07 owns the defaults)
    from . import c08 as _c08
    L.borrow(repo, rep, "R01.4", "C08", _c08._whitespace, ("last-text",))
    L.borrow(repo, rep, "R01.5", "C07", c07._defaults, ("html-defaults",))
    # the keys of an attribute dictionary are written as given (C02 owns the
    # routing of dictionary entries)
    L.borrow(repo, rep, "R01.5", "C02", c02._routing, ("dict-operand",))
    # the switch a case belongs to is the nearest enclosing one that exists:
    # the search loop stops at the first entry that is not None
    ve_ = repo.func("chameleon.zpt.program.MacroProgram.visit_element")
    sl = [lp for lp in ast.walk(ve_.node) if isinstance(lp, ast.For)
          and "self._switches" in src(lp.iter)]
    oksl = bool(sl)
    for lp in sl:
        var = src(lp.target)
        brk = [b for b in ast.walk(lp) if isinstance(b, ast.Break)]
        for b in brk:
            gs = [src(L._CanonIf._pos(t_)[0]).replace(" ", "")
                  for t_, v_ in L.guards_of(b, lp)
                  if isinstance(t_, ast.expr)]
            if not any(g in (var + "isNone", var + "isnotNone", var)
                       for g in gs):
                oksl = False
        if not brk or not lp.orelse:
            oksl = False
    rep.check(oksl, "R01.3", ve_.qualname, "the search for the enclosing "
              "switch tests the entry it looks at, and a case without any "
              "switch is an error", construct="switch-search",
              where=L.where(ve_))
    L.state_rule(repo, rep)


EXPECT_KIND = {
    "on-error": ["OnError"],
    "define-slot": ["DefineSlot"],
    # default alias; 'switch not cancelled' guard; the case expression
    # evaluated once (Cache) only below that guard; the match test; cancel
    "case": lambda k: (k[:1] == ["Define"] and k[-1:] == ["Cancel"] and
                       k.count("Condition") == 2 and k.count("Cache") == 1
                       and k.index("Condition") < k.index("Cache") <
                       len(k) - 1 - k[::-1].index("Condition")),
    "condition": ["Condition"],
    "repeat": ["Repeat"],
    "switch": ["Cache"],
    "domain": ["Domain"],
    "context": ["TxContext"],
    "target": ["Define", "Target"],
}

# (outer, inner, reason)
PINNED = [
    ("on-error", "*", "on-error guards everything the element does (only "
                      "the i18n:name capture, which merely redirects where "
                      "the element's output -- fallback included -- is "
                      "written, may enclose it)"),
    ("define-slot", "<define>", "a filled slot replaces the whole element "
                                "including its definitions"),
    ("<define>", "case", "definitions first: visible to the guards"),
    ("<define>", "condition", "definitions first"),
    ("<define>", "repeat", "definitions first"),
    ("<define>", "switch", "definitions first"),
    ("condition", "repeat", "documented: condition is tested once, outside "
                            "the repetition"),
    ("case", "condition", "guard order of the reference tree: a matched "
                          "case cancels its siblings even if the element's "
                          "own condition is false (docs list case last; the "
                          "implementation's order is what existing templates "
                          "render with -- 'one fixed order')"),
    ("repeat", "switch", "guard order of the reference tree: the element's "
                         "own switch is evaluated per repetition"),
    ("case", "<inner>", "guards enclose content/replace/element"),
    ("condition", "<inner>", "guards enclose content/replace/element"),
    ("repeat", "<inner>", "guards enclose content/replace/element"),
    ("switch", "<inner>", "the switch value is cached around the children"),
    ("switch", "domain", "an element's own i18n settings apply to its "
                         "content, not to its own statements: the switch "
                         "value (like define, condition and repeat) is "
                         "evaluated with the enclosing element's settings"),
    ("domain", "<inner>", "translation settings apply to the content"),
    ("context", "<inner>", "translation settings apply to the content"),
    ("target", "<inner>", "translation settings apply to the content"),
]


def element_value(res):
    """What visit_element returns for an element that is not itself a macro
    definition.  (A define-macro element returns a reference to its macro;
    the macro body -- registered with the element's on-error wrapper -- is
    the same chain from the slot level inwards.)"""
    dm = "has ns[(METAL, 'define-macro')]"
    top = res.value
    if L.decides_on(top, dm):
        top = L.branch(top, dm, False)
    return top


def element_chain(res, limit=60):
    """wrapper_chain of what visit_element returns for an element that is
    not itself a macro definition: wherever the value branches on
    metal:define-macro, the branch without it is followed (the macro body
    -- registered with the element's on-error wrapper -- is the same chain
    from the slot level inwards)."""
    dm = "has ns[(METAL, 'define-macro')]"
    v = res.value
    steps = []
    for _ in range(limit):
        if L.decides_on(v, dm) and not (
                isinstance(L.branch(v, dm, True), A.NodeV) and
                L.branch(v, dm, True).kind == "UseInternalMacro" and
                steps and steps[-1].get("kinds") == ["OnError"]):
            v = L.branch(v, dm, False)
            continue
        r = L.peel(v)
        if r is None:
            break
        steps.append(r[0])
        v = r[1]
    return steps, v


def order(repo, rep):
    """wrapper nesting (R01.1), callable by neighbours"""
    func = repo.func(VE)
    res = L.emission(repo, VE)
    steps, rest = element_chain(res)
    _order(rep, func, steps, rest)


def _order(rep, func, steps, rest):
    site = func.qualname
    wh = L.where(func)
    pos = {}
    for i, s in enumerate(steps):
        key = stmt_of(s)
        if key is None and s["kinds"] == ["Define"]:
            key = "<define>"
        if key is None:
            key = "<%s>" % "/".join(s["kinds"])
        if "name" in key and s["kinds"] == ["Name"]:
            key = "name"
        pos[key] = i
        exp = EXPECT_KIND.get(key)
        if exp is not None:
            good = exp(s["kinds"]) if callable(exp) else s["kinds"] == exp
            rep.check(good, "R01.1", site,
                      "statement '%s' is implemented by node kind %s" % (
                          key, "Define>Condition(not cancelled)>Cache(case "
                          "value)>Condition(match)>Cancel" if callable(exp)
                          else ">".join(exp)), construct="kind:" + key,
                      where=wh, detail="found %s" % s["kinds"])
            rep.check(applied_when_present(s), "R01.1", site,
                      "the '%s' wrapper is applied exactly when the statement "
                      "is present" % key, construct="applied:" + key, where=wh,
                      detail="guard %s, wrapper in %s branch" % (
                          s["guard"], "then" if s["polarity"] else "else"))
    pos["<inner>"] = len(steps)
    for key in ("on-error", "define-slot", "<define>", "case", "condition",
                "repeat", "switch"):
        rep.check(key in pos, "R01.1", site,
                  "the wrapper for '%s' is part of the element's nesting" % key,
                  construct="present:" + key, where=wh,
                  detail="chain: %s" % [stmt_of(s) or s["kinds"]
                                        for s in steps])
    for outer, inner, why in PINNED:
        if outer not in pos:
            continue
        if inner == "*":
            ok = pos[outer] == 0 or (pos[outer] == 1 and pos.get("name") == 0)
        elif inner not in pos:
            continue
        else:
            ok = pos[outer] < pos[inner]
        rep.check(ok, "R01.1", site,
                  "%s encloses %s (%s)" % (outer, inner, why),
                  construct="order:%s>%s" % (outer, inner), where=wh,
                  detail="nesting (outer to inner): %s" % [
                      stmt_of(s) or "/".join(s["kinds"]) for s in steps])
    # the define wrapper is unconditional and carries the parsed definitions
    if "<define>" in pos:
        d = steps[pos["<define>"]]["node"]
        txt = A.show(d.args[0], limit=6) if d.args else ""
        rep.check("parse_defines" in txt and "Assignment" in txt, "R01.1",
                  site, "the Define wrapper carries one Assignment per parsed "
                  "tal:define part, in written order", construct="define-args",
                  where=wh, detail=txt[:160])
        rep.check("'local'" in txt, "R01.1", site,
                  "an Assignment is local iff its context is 'local'",
                  construct="define-local", where=wh)


def _nodes(v, kind):
    return [w for w in A.walk(v) if isinstance(w, A.NodeV) and w.kind == kind]


def _chain(rep, func, steps, rest):
    site = func.qualname
    wh = L.where(func)
    # rest = Alt<use_macro or extend_macro>(macro branch | element branch)
    elem = rest
    if isinstance(rest, A.Alt) and "use_macro" in rest.test:
        elem = rest.b
    # tal:replace wraps the whole element
    ok = isinstance(elem, A.Alt) and "'replace'" in elem.test
    rep.check(ok, "R01.2", site, "tal:replace is the outermost construction "
              "step of the element proper", construct="replace-outermost",
              where=wh, detail=A.show(elem, limit=1)[:120])
    if not ok:
        return
    replaced, inner = elem.a, elem.b
    conds = [c for c in _nodes(replaced, "Condition")
             if isinstance(c.args[0], A.NodeV) and c.args[0].kind == "BinOp"]
    good = False
    for c in conds:
        binop = c.args[0]
        if len(c.args) >= 3 and c.args[1] is inner and \
                isinstance(c.args[2], A.NodeV) and \
                c.args[2].kind == "Content" and \
                len(binop.args) == 3 and A.show(binop.args[1]) == "nodes.Is" \
                and "default_marker" in A.show(binop.args[2]):
            good = True
    rep.check(good, "R01.2", site,
              "tal:replace: 'default' keeps the whole element (tags, omit-tag "
              "and attributes included), any other value replaces it",
              construct="replace-default", where=wh)
    # the element itself
    elems = _nodes(inner, "Element")
    rep.check(bool(elems), "R01.2", site, "an Element(start, end, content) "
              "is built", construct="element", where=wh)
    omitted = isinstance(inner, A.Alt) and "omit is True" in inner.test
    rep.check(omitted, "R01.2", site, "a bare tal:omit-tag (or a language "
              "namespace element) drops the tags and keeps the content",
              construct="omit-true", where=wh,
              detail=A.show(inner, limit=1)[:100])
    if omitted:
        content = inner.a
        for e in elems:
            rep.check(len(e.args) == 3 and e.args[2] is content, "R01.2",
                      site, "the element's content is the content node that "
                      "is kept when the tag is omitted",
                      construct="element-content", where=wh)
        # tal:content wraps the children as its default
        cn = [c for c in _nodes(content, "Condition")
              if isinstance(c.args[0], A.NodeV) and c.args[0].kind == "BinOp"]
        def kept(v):
            # the children, or (i18n:translate on the element) the children
            # inside a Translate node
            if isinstance(v, A.Alt):
                return kept(v.a) and kept(v.b)
            if isinstance(v, A.NodeV) and v.kind == "Translate" and \
                    len(v.args) >= 2:
                return kept(v.args[1])
            return isinstance(v, A.NodeV) and v.kind == "Sequence"
        okc = any(len(c.args) >= 3 and kept(c.args[1]) and
                  isinstance(c.args[2], A.NodeV) and
                  c.args[2].kind == "Content" for c in cn)
        rep.check(okc, "R01.2", site, "tal:content: 'default' keeps the "
                  "element's own children, any other value replaces them",
                  construct="content-default", where=wh)
    # omit-tag with expression
    caches = [c for c in _nodes(inner, "Cache")]
    okomit = False
    for c in caches:
        if len(c.args) != 2:
            continue
        exprs = [w for w in A.walk(c.args[0])
                 if isinstance(w, A.NodeV) and w.kind == "Negate"]
        el = c.args[1]
        if not exprs or not (isinstance(el, A.NodeV) and el.kind == "Element"):
            continue
        neg = exprs[0]
        tags = []
        for t in el.args[:2]:
            for w in A.walk(t):
                if isinstance(w, A.NodeV) and w.kind == "Condition" and \
                        w.args and w.args[0] is neg:
                    tags.append(w)
                    break
        inner_kinds = [A.show(w.args[1], limit=0)[:11] for w in tags]
        if len(tags) == 2:
            okomit = True
    rep.check(okomit, "R01.2", site,
              "tal:omit-tag with an expression: start and end tag are both "
              "conditional on the negated value and the value is cached "
              "around the element (evaluated once)", construct="omit-expr",
              where=wh)
    # attributes live inside the start tag
    starts = _nodes(inner, "Start")
    oka = bool(starts) and all(
        len(s.args) == 4 and "attributes" in A.show(s.args[3], limit=3).lower()
        or "Sequence" in A.show(s.args[3], limit=2) for s in starts)
    rep.check(oka, "R01.2", site, "attribute nodes are the 4th field of the "
              "start tag (evaluated after the guards, with the tag)",
              construct="attrs-in-start", where=wh)


def _keyed(repo, rep, func):
    site = func.qualname
    wh = L.where(func)
    node = func.node
    aliases = {"ns"}
    keyed = 0
    for n in ast.walk(node):
        if isinstance(n, ast.Subscript) and isinstance(n.value, ast.Name) \
                and n.value.id in aliases and isinstance(n.slice, ast.Tuple):
            if all(isinstance(e, (ast.Name, ast.Constant))
                   for e in n.slice.elts):
                keyed += 1
        elif isinstance(n, ast.Call) and isinstance(n.func, ast.Attribute) \
                and n.func.attr == "get" and \
                isinstance(n.func.value, ast.Name) and \
                n.func.value.id in aliases:
            keyed += 1
    chk = repo.func("chameleon.zpt.program.MacroProgram._check_attributes")
    for n in ast.walk(chk.node):
        if isinstance(n, ast.Call) and isinstance(n.func, ast.Attribute) \
                and n.func.attr == "get" and src(n.func.value) == "ns":
            keyed += 1
    rep.check(keyed >= 25, "R01.3", site,
              "statement attributes are read by constant (namespace, name) "
              "keys", construct="keyed-reads", where=wh,
              detail="%d keyed reads" % keyed)
    rep.count("keyed_reads", keyed)
    # loops / comprehensions over ns
    nloops = 0
    for n in ast.walk(node):
        it = None
        body = []
        if isinstance(n, ast.For):
            it, body = n.iter, n.body
        elif isinstance(n, (ast.ListComp, ast.SetComp, ast.GeneratorExp,
                            ast.DictComp)):
            it = n.generators[0].iter
            body = [n]
        if it is None:
            continue
        names = {x.id for x in ast.walk(it) if isinstance(x, ast.Name)}
        if not (names & aliases):
            continue
        nloops += 1
        bad = None
        for b in body:
            for c in ast.walk(b):
                if isinstance(c, ast.Call):
                    t = src(c.func)
                    if t.startswith("nodes.") or t in ("wrap", "partial") or \
                            t.endswith(".append") or t.endswith(".insert"):
                        bad = t
        rep.check(bad is None, "R01.3", site,
                  "a loop over the statement attributes (line %d) does not "
                  "construct nodes or ordered lists (its result cannot depend "
                  "on the written order)" % n.lineno,
                  construct="ordered-loop", where=L.where(func, n.lineno),
                  detail="calls %s" % bad)
    rep.check(nloops >= 1, "R01.3", site, "loops over statement attributes "
              "were found and classified", construct="loops-found", where=wh)
    # validate_attributes: raise-only loop
    va = repo.func("chameleon.zpt.program.validate_attributes")
    stmts = [s for s in ast.walk(va.node) if isinstance(s, ast.stmt)
             and not isinstance(s, (ast.FunctionDef, ast.For, ast.If,
                                    ast.Raise))]
    rep.check(not stmts, "R01.3", va.qualname,
              "validate_attributes only raises (commuting loop body)",
              construct="validator-effects", where=L.where(va),
              detail=str([src(s) for s in stmts]))


STATEMENT_EMITTERS = ("visit_Define", "visit_Condition", "visit_Repeat",
                      "visit_Cache", "visit_OnError", "visit_Element",
                      "visit_Content", "visit_Attribute",
                      "visit_DictAttributes", "visit_OmitTag")


def _nesting(repo, rep):
    """'arbitrarily nested elements': an element's statements may enclose
    elements carrying the same statements.  The render function has one
    flat local namespace, so every generated local that an emitter writes
    before the element body and reads after it must carry the node's
    identity (G-LIVE) -- a name derived from user-chosen text (a variable
    name, a value) is shared by every nested element that chose the same."""
    comp = repo.cls("chameleon.compiler.Compiler")
    n = 0
    for name in STATEMENT_EMITTERS:
        m = comp.methods.get(name)
        if m is None:
            continue
        n += 1
        L.g_live(rep, "R01.9", m, L.emission(repo, m.qualname))
    if n < 6:
        raise AnalysisError("statement emitters vanished (%d found)" % n)
    # the per-node identity those locals embed is id(<names object>): it is
    # per element only if the statement parser returns a new object per call
    from .c05 import names_object_fresh
    okf, detail, pf = names_object_fresh(repo)
    rep.check(okf, "R01.9", pf.qualname, "the define/repeat parser returns a "
              "fresh result per element (no memoisation): two nested "
              "elements with the same clause text get different backup "
              "locals", construct="fresh-names-object", where=L.where(pf),
              detail=detail)


def _skeletons(repo, rep):
    # visit_Define: all assignments before the body
    f = repo.func(COMP + "visit_Define")
    lin = L.Lin(L.emission(repo, f.qualname).emission)
    body = lin.index(L.is_child("node.node"))
    assigns = [i for i in lin.all(lambda it: isinstance(it, A.Child))
               if "assignments" in A.show(lin.item(i).arg)]
    rep.check(body >= 0 and assigns and max(assigns) < body, "R01.4",
              f.qualname, "every assignment is emitted before the element "
              "body", construct="define-order", where=L.where(f))
    loops = L.enclosing_loops(lin.root, lin.item(assigns[0])) if assigns \
        else ()
    rep.check(bool(loops) and not loops[0].rev, "R01.4", f.qualname,
              "assignments are emitted in written order",
              construct="define-forward", where=L.where(f))

    # visit_Condition
    f = repo.func(COMP + "visit_Condition")
    res = L.emission(repo, f.qualname)
    lin = L.Lin(res.emission)
    ifs = [i for i in lin.all(L.is_py("If"))
           if lin.inside(i, "If") is None]
    ok = False
    detail = ""
    evs = [lin.item(i) for i in lin.all(lambda it: isinstance(it, A.Eval))]
    for i in ifs:
        node = lin.item(i)
        test = node.f.get("test")
        body = node.f.get("body")
        orelse = node.f.get("orelse")
        tb = A.show(body, limit=6) if body is not None else ""
        to = A.show(orelse, limit=6) if orelse is not None else ""
        if isinstance(test, A.NameRef) and test.ctx == "load" and \
                "Child(node.node)" in tb and "Child(node.node)" not in to \
                and "orelse" in to and "orelse" not in tb.replace(
                    "node.node", ""):
            tk = A.ident_key(test)
            if evs and all(A.ident_key(e.target) == tk for e in evs):
                ok = True
            detail = "test=%s" % A.show(test)
    rep.check(ok, "R01.4", f.qualname,
              "condition: 'if <evaluated target>: body else: orelse' -- the "
              "test reads what the expression engine assigned, body is the "
              "guarded node, orelse the alternative", construct="condition-if",
              where=L.where(f), detail=detail)
    # and / or chains: the next term is evaluated only while the result so
    # far is True (and) / False (or)
    inner = [lin.item(i) for i in lin.all(L.is_py("If"))
             if isinstance(lin.item(i).f.get("test"), A.Py)
             and lin.item(i).f["test"].kind == "Compare"]
    okl = bool(inner)
    for node in inner:
        t = node.f["test"]
        cmpv = A.show(t.f.get("comparators"), limit=8)
        ops = A.show(t.f.get("ops"), limit=4)
        if not ("isinstance(" in cmpv and "And)" in cmpv and "Is()" in ops
                and "__condition" in A.show(t.f.get("left"))):
            okl = False
    rep.check(okl, "R01.4", f.qualname, "logical chains short-circuit: the "
              "next term runs iff the value so far 'is' True for And / False "
              "for Or (compared with isinstance(node, And))",
              construct="logical-chain", where=L.where(f))
    # ... and the terms run in the order written: the chain is built from
    # the inside out (each term's statements wrap what was built so far), so
    # the builder has to walk the terms backwards
    steps_ = [n for n in ast.walk(f.node) if isinstance(n, ast.FunctionDef)
              and n is not f.node]
    wraps = []
    for st in steps_:
        for lp in ast.walk(st):
            if isinstance(lp, ast.For) and any(
                    isinstance(a, ast.Assign) and src(a.targets[0]) == "body"
                    for a in ast.walk(lp)) and any(
                        isinstance(c, ast.Call) and any(
                            src(x) == "body" for x in c.args)
                        for c in ast.walk(lp)):
                wraps.append(lp)
    if not wraps:
        raise AnalysisError("visit_Condition: the builder of logical "
                            "chains is not the inside-out loop any more")
    rep.check(all("reversed(" in src(lp.iter) for lp in wraps), "R01.4",
              f.qualname, "the terms of an and / or chain are evaluated in "
              "the order written (inside-out construction over the "
              "reversed terms)", construct="logical-order",
              where=L.where(f, wraps[0].lineno),
              detail=src(wraps[0].iter))
    ev = lin.index(lambda it: isinstance(it, A.Eval))
    rep.check(ifs and ev >= 0 and ev < max(ifs), "R01.4", f.qualname,
              "the condition is evaluated before the test",
              construct="condition-eval-first", where=L.where(f))

    # visit_Repeat
    f = repo.func(COMP + "visit_Repeat")
    res = L.emission(repo, f.qualname)
    lin = L.Lin(res.emission)
    fors = lin.all(L.is_py("For"))
    ok = len(fors) == 1
    rep.check(ok, "R01.4", f.qualname, "exactly one for loop is emitted",
              construct="repeat-for", where=L.where(f))
    if ok:
        fo = lin.item(fors[0])
        rows = [i for i in range(len(lin.rows))
                if any(n is fo and fld == "body" for n, fld in lin.path(i))]
        first = lin.item(rows[0]) if rows else None
        okb = isinstance(first, A.Py) and first.kind == "Assign" and \
            A.show(first.f.get("value")) == A.show(fo.f.get("target")).replace(
                "store", "load")
        rep.check(okb, "R01.4", f.qualname,
                  "the per-iteration binding of the loop variable(s) is the "
                  "first statement of the loop body", construct="repeat-bind",
                  where=L.where(f), detail=A.show(first, limit=2)[:100])
        # evaluation of the repeat expression precedes the pre-binding of
        # the loop names (the expression may mention an outer variable of
        # the same name)
        ev0 = lin.index(lambda it: isinstance(it, A.Eval))
        pre = [j for j in range(fors[0])
               if isinstance(lin.item(j), A.Py)
               and lin.item(j).kind == "Assign"
               and "load('None')" in A.show(lin.item(j).f.get("value"))
               and "node.names" in A.show(lin.item(j).f.get("targets"),
                                          limit=8)]
        rep.check(ev0 >= 0 and pre and ev0 < min(pre), "R01.4", f.qualname,
                  "the repeat expression is evaluated before the loop names "
                  "are touched", construct="repeat-eval-first",
                  where=L.where(f), detail="eval@%s prebind@%s" % (ev0, pre))
        child = [i for i in rows if isinstance(lin.item(i), A.Child)]
        rep.check(bool(child) and child[0] > rows[0], "R01.4", f.qualname,
                  "the repeated node is emitted inside the loop after the "
                  "binding", construct="repeat-body", where=L.where(f))
        # iterable is what the repeat dict returned
        itname = A.ident_key(fo.f.get("iter"))
        okit = False
        for i in range(fors[0]):
            it = lin.item(i)
            if isinstance(it, A.Frag):
                for node, b in L.frag_find(
                        it, "_I, _N = getname('repeat')(_K, _I)"):
                    if L.name_key(it, b["_I"]) == itname:
                        okit = True
        rep.check(okit, "R01.4", f.qualname,
                  "the loop iterates over the iterator the repeat dictionary "
                  "returned", construct="repeat-iter", where=L.where(f))

    # visit_Element: start, content, end
    f = repo.func(COMP + "visit_Element")
    lin = L.Lin(L.emission(repo, f.qualname).emission)
    order = [A.show(lin.item(i).arg) for i in
             lin.all(lambda it: isinstance(it, A.Child))]
    rep.check(order == ["node.start", "node.content", "node.end"], "R01.4",
              f.qualname, "element = start tag, content, end tag",
              construct="element-order", where=L.where(f), detail=str(order))

    # visit_Cache / visit_Cancel
    f = repo.func(COMP + "visit_Cache")
    res = L.emission(repo, f.qualname)
    tr = list(A.flatten(res.trace))
    ev = [(i, it, c) for i, (it, c) in enumerate(tr)
          if isinstance(it, A.Eval)]
    reg = [(i, it, c) for i, (it, c) in enumerate(tr)
           if isinstance(it, A.Effect) and it.kind == "setitem"
           and "_expression_cache" in it.target]
    ch = [i for i, (it, c) in enumerate(tr) if isinstance(it, A.Child)]
    ok = len(ev) == 1 and len(reg) == 1 and ev[0][0] < reg[0][0] and \
        ch and reg[0][0] < ch[0]
    rep.check(ok, "R01.4", f.qualname,
              "cache: evaluate, then register, then emit the node that reads "
              "the value", construct="cache-order", where=L.where(f))
    if ok:
        tgt = reg[0][1].arg.items[1]
        rep.check(A.ident_key(tgt) == A.ident_key(ev[0][1].target), "R01.4",
                  f.qualname, "the registered cache variable is the one that "
                  "was assigned", construct="cache-target", where=L.where(f))
        rep.check(L.polarity(ev[0][2], "self._expression_cache.get(%s)" %
                             A.show(ev[0][1].expr)) is False, "R01.4",
                  f.qualname, "an expression that is already cached is not "
                  "evaluated again", construct="cache-skip", where=L.where(f),
                  detail=L.conds_text(ev[0][2]))
        cache_ident = A.ident_key(ev[0][1].target)
        g = repo.func(COMP + "visit_Cancel")
        r2 = L.emission(repo, g.qualname)
        lin2 = L.Lin(r2.emission)
        e2 = [lin2.item(i) for i in lin2.all(lambda it: isinstance(
            it, A.Eval))]
        c2 = lin2.index(L.is_child("node.node"))
        rep.check(len(e2) == 1 and A.ident_key(e2[0].target) == cache_ident
                  and A.show(e2[0].expr) == "node.value", "R01.4",
                  g.qualname, "cancel writes the marker into the very "
                  "variable the Cache node created for that expression",
                  construct="cancel-target", where=L.where(g),
                  detail="%s vs %s" % (cache_ident, [A.ident_key(e.target)
                                                     for e in e2]))
        rep.check(c2 > lin2.index(lambda it: isinstance(it, A.Eval)) >= 0,
                  "R01.4", g.qualname, "the marker is written before the "
                  "matched case's body (later siblings see it)",
                  construct="cancel-order", where=L.where(g))


def content_node_total(repo):
    """_make_content_node builds, for every expression text, a Content node
    over Value(expression) with the escape set chosen by the keyword -- no
    shortcut that by-passes evaluation or escaping.  -> (ok, detail)"""
    f = repo.func("chameleon.zpt.program.MacroProgram._make_content_node")
    v = L.emission(repo, f.qualname).value

    def tops(x, conds=()):
        if isinstance(x, A.Alt):
            yield from tops(x.a, conds + ((x.test, True),))
            yield from tops(x.b, conds + ((x.test, False),))
        else:
            yield conds, x
    n = 0
    for conds, leaf in tops(v):
        n += 1
        extra = [c for c in conds
                 if not L.cond_holds([c], "default is None", True) and
                 not L.cond_holds([c], "default is None", False)]
        if extra:
            return False, "a branch on %s decides what is built" % (
                [t for t, b in extra],)
        cs = [w for w in A.walk(leaf) if isinstance(w, A.NodeV)
              and w.kind == "Content"]
        good = [c for c in cs if len(c.args) >= 3 and
                A.show(c.args[0]) == "nodes.Value(expression)" and
                isinstance(c.args[1], A.Alt) and
                L.decides_on(c.args[1], "key == 'text'") and
                A.show(L.branch(c.args[1], "key == 'text'", True))
                == "('&', '<', '>')" and
                A.show(L.branch(c.args[1], "key == 'text'", False)) == "()"
                and A.show(c.args[2]) == "translate"]
        if not good:
            return False, "no Content(Value(expression), escape-by-keyword," \
                          " translate) under %s: %s" % (
                              conds, A.show(leaf, limit=3)[:120])
    return n >= 1, "%d alternative(s)" % n


def _sinks(repo, rep):
    okc, detail = content_node_total(repo)
    rep.check(okc, "R01.5", "chameleon.zpt.program.MacroProgram."
              "_make_content_node", "content / replace / on-error "
              "expressions always become Content(Value(expression), escape "
              "set by keyword, translate) -- the only branch is on the "
              "static default", construct="content-total", detail=detail)
    # 'None / nothing removes': in the dictionary form of tal:attributes an
    # entry is dropped by identity with None only -- '', 0, False are values
    da = repo.func(COMP + "visit_DictAttributes")
    r = L.emission(repo, da.qualname)
    guards = []
    for w in A.walk(r.emission):
        if isinstance(w, A.Frag) and w.tree is not None:
            for n in ast.walk(w.tree):
                if isinstance(n, ast.If) and "not in" in src(n.test):
                    guards.append(n.test)
    okd = False
    detail = "no write guard found"
    for g in guards:
        ops = g.values if isinstance(g, ast.BoolOp) and isinstance(
            g.op, ast.And) else [g]
        none_tests = [o for o in ops if isinstance(o, ast.Compare)
                      and len(o.ops) == 1 and isinstance(o.ops[0], ast.IsNot)
                      and isinstance(o.comparators[0], ast.Constant)
                      and o.comparators[0].value is None]
        truthy = [o for o in ops if isinstance(o, (ast.Name, ast.Call))
                  or (isinstance(o, ast.UnaryOp) and isinstance(
                      o.op, ast.Not))]
        okd = bool(none_tests) and not truthy
        detail = src(g)
    rep.check(okd, "R01.5", da.qualname, "a dictionary entry of "
              "tal:attributes is dropped only when its value is None "
              "(identity test, no truthiness test)",
              construct="dict-none-only", where=L.where(da), detail=detail)
    res = L.emission(repo, COMP + "visit_Macro")
    names = {}
    for w in A.walk(res.emission):
        if isinstance(w, A.Frag) and w.tree is not None and "func" in w.slots:
            for n in w.tree.body:
                if isinstance(n, ast.FunctionDef):
                    names[A.show(w.slots["func"]).strip("'")] = (n, w)
    for nm in ("__quote", "__convert"):
        rep.check(nm in names, "R01.5", COMP + "visit_Macro",
                  "the render prologue defines %s" % nm,
                  construct="defines:" + nm)
        if nm not in names:
            continue
        fn, fr = names[nm]
        first = fn.body[0]
        p0 = fn.args.args[0].arg
        ok = isinstance(first, ast.If) and src(first.test) == "%s is None" \
            % p0 and isinstance(first.body[0], ast.Return) and \
            first.body[0].value is None
        rep.check(ok, "R01.5", "chameleon.compiler." + (fr.factory or nm),
                  "%s: None yields nothing (first test)" % nm,
                  construct="none-first:" + nm)
    # emit_convert (structure conversion inline)
    from ..absint import Interp
    ip = L.interp(repo)
    mod = repo.module("chameleon.compiler")
    fac = ip._factory(mod.assigns["emit_convert"][-1], mod, "emit_convert") \
        if "emit_convert" in mod.assigns else None
    if fac is None:
        raise AnalysisError("emit_convert factory vanished")
    tree = ast.parse(__import__("textwrap").dedent(fac.node[1]["source"]))
    first = tree.body[0]
    ok = isinstance(first, ast.If) and src(first.test) == "target is None" \
        and isinstance(first.body[0], ast.Pass)
    rep.check(ok, "R01.5", "chameleon.compiler.emit_convert",
              "structure conversion leaves None alone (nothing is emitted)",
              construct="none-first:emit_convert")
    ok2 = isinstance(first, ast.If) and first.orelse and \
        isinstance(first.orelse[0], ast.If) and \
        src(first.orelse[0].test) == "target is default_marker" and \
        src(first.orelse[0].body[0]) == "target = default"
    rep.check(ok2, "R01.5", "chameleon.compiler.emit_convert",
              "the default marker selects the default", "default:emit_convert")
    # visit_Content appends only if not None -- covered in C02; here: the
    # guard exists
    f = repo.func(COMP + "visit_Content")
    r = L.emission(repo, f.qualname)
    ok = any(isinstance(w, A.Frag) and
             L.frag_find(w, "if _N is not None: __append(_N)")
             for w in A.walk(r.emission))
    rep.check(ok, "R01.5", f.qualname,
              "content is appended only when it is not None",
              construct="content-none", where=L.where(f))
    # _make_content_node: then = default, else = Content
    f = repo.func("chameleon.zpt.program.MacroProgram._make_content_node")
    r = L.emission(repo, f.qualname)
    ok = False
    for c in _nodes(r.value, "Condition"):
        if len(c.args) == 3 and isinstance(c.args[0], A.NodeV) and \
                c.args[0].kind == "BinOp" and \
                A.show(c.args[1]) == "default" and \
                isinstance(c.args[2], A.NodeV) and c.args[2].kind == "Content":
            b = c.args[0]
            if A.show(b.args[1]) == "nodes.Is" and \
                    "default_marker" in A.show(b.args[2]) and \
                    b.args[0] is c.args[2].args[0]:
                ok = True
    rep.check(ok, "R01.5", f.qualname,
              "Condition(value is default_marker, <static default>, "
              "Content(value)): then/else not swapped, one value object",
              construct="default-condition", where=L.where(f))
    caches = _nodes(r.value, "Cache")
    ok = any(len(c.args) == 2 and any(
        isinstance(w, A.NodeV) and w.kind == "Value"
        for w in A.walk(c.args[0])) for c in caches)
    rep.check(ok, "R01.5", f.qualname,
              "the value tested against 'default' and the value inserted are "
              "one cached evaluation", construct="default-cache",
              where=L.where(f))


def _cache_scope(repo, rep, func, res, steps):
    """R01.6: tal:case reads the value of a switch; that switch's Cache must
    enclose the case wrapper."""
    site = func.qualname
    tr = list(A.flatten(res.trace))
    push = [i for i, (it, c) in enumerate(tr)
            if isinstance(it, A.Effect) and it.kind == "push"
            and it.target == "self._switches"]
    # the search loop over the open switches
    search = None
    for n in ast.walk(func.node):
        if isinstance(n, ast.For) and "self._switches" in src(n.iter):
            search = n
    if search is None:
        # the lookup written without a loop: next(filter(None, <seq>), ...),
        # next(s for s in <seq> if ...) -- modelled as a loop over <seq>
        for n in ast.walk(func.node):
            if isinstance(n, ast.Call) and src(n.func) == "next" and \
                    n.args and "self._switches" in src(n.args[0]):
                seq = None
                a0 = n.args[0]
                if isinstance(a0, ast.Call) and src(a0.func) == "filter" \
                        and len(a0.args) == 2:
                    seq = a0.args[1]
                elif isinstance(a0, ast.GeneratorExp):
                    seq = a0.generators[0].iter
                if seq is not None:
                    search = ast.For(target=ast.Name("_", ast.Store()),
                                     iter=seq, body=[ast.If(
                                         test=ast.parse(
                                             "x is not None",
                                             mode="eval").body,
                                         body=[ast.Break()], orelse=[])],
                                     orelse=[])
                    ast.copy_location(search, n)
                    ast.fix_missing_locations(search)
    if not push or search is None:
        raise AnalysisError("switch stack push / case lookup not found")
    push_line = tr[push[0]][0].lineno
    own_visible = push_line < search.lineno and \
        "[:-1]" not in src(search.iter).replace(" ", "")
    pos = {}
    for i, s in enumerate(steps):
        pos[stmt_of(s)] = i
    ok = True
    detail = ""
    if own_visible and "case" in pos and "switch" in pos:
        ok = pos["switch"] < pos["case"]
        detail = ("the element's own tal:switch is pushed (line %d) before "
                  "the tal:case lookup (line %d) iterates %s, so a case on the "
                  "same element binds to its own switch, whose Cache wrapper "
                  "is nested inside the case wrapper" % (
                      push_line, search.lineno, src(search.iter)))
    rep.check(ok, "R01.6", site,
              "tal:case reads a switch value only inside the Cache that "
              "evaluates it", construct="case-own-switch",
              where=L.where(func, search.lineno), detail=detail)
    # a case belongs to the NEAREST enclosing switch: the open switches are
    # searched from the innermost outwards, and the first one that is set
    # ends the search
    it = search.iter
    inner_first = (isinstance(it, ast.Call) and src(it.func) == "reversed") \
        or (isinstance(it, ast.Subscript) and isinstance(it.slice, ast.Slice)
            and it.slice.step is not None
            and src(it.slice.step).replace(" ", "") == "-1")
    first_hit = any(isinstance(x, ast.If) and any(
        isinstance(y, ast.Break) for y in x.body) and
        "is not None" in src(x.test) or (
            isinstance(x, ast.If) and "is None" in src(x.test) and any(
                isinstance(y, ast.Break) for y in x.orelse))
        for x in search.body)
    rep.check(inner_first and first_hit, "R01.6", site, "tal:case binds to "
              "the nearest enclosing tal:switch (the stack of open switches "
              "is searched from the top, the first set entry wins)",
              construct="case-nearest-switch",
              where=L.where(func, search.lineno), detail=src(search.iter))
    # children see the switch: push precedes the children visit, pop follows
    L.g_pair_stack(rep, "R01.6", func, res, "self._switches")
    # 'the matching case': a case matches when its value EQUALS the switch
    # value (or is the default marker: identity).  The comparison nodes are
    # turned into Python by one table; every comparison class of nodes.py
    # has its row and the row is the operator the class is named after
    OPS = {"Is": "is", "IsNot": "is not", "Equals": "==",
           "NotEquals": "!=", "In": "in", "NotIn": "not in"}
    opbase = repo.cls("chameleon.nodes.Op")
    classes = sorted(c.name for c in repo.subclasses(opbase))
    vb = repo.func("chameleon.compiler.ExpressionTransform.visit_BinOp")
    tables = [n for n in ast.walk(vb.node) if isinstance(n, ast.Dict)
              and n.keys and all(isinstance(k, (ast.Name, ast.Attribute))
                                 for k in n.keys)]
    if len(tables) != 1:
        raise AnalysisError("visit_BinOp: operator table not found")
    rows = {src(k).split(".")[-1]: (v.value if isinstance(v, ast.Constant)
                                    else src(v))
            for k, v in zip(tables[0].keys, tables[0].values)}
    wrong = sorted("%s -> %r" % (k, v) for k, v in rows.items()
                   if OPS.get(k) != v)
    missing = sorted(c for c in classes if c not in rows)
    rep.check(not wrong and not missing and len(rows) >= 3, "R01.6",
              vb.qualname, "every comparison node is compiled to the "
              "operator it is named after (Equals is '==': a case value "
              "equal to the switch value matches, also when it is another "
              "object)", construct="op-table", where=L.where(vb),
              detail="wrong: %s; without a row: %s" % (wrong, missing))
    # ... and tal:case compares with Equals (the default marker with Is)
    cmp_ops = []
    for w in A.walk(res.value):
        if isinstance(w, A.NodeV) and w.kind == "BinOp":
            cmp_ops.append(A.show(w.arg("op", ("left", "op", "right")),
                                  limit=3))
    rep.check(set(cmp_ops) <= {"nodes.Equals", "nodes.Is", "nodes.IsNot"},
              "R01.6", site, "a case is met by equality with the switch "
              "value (or by the default marker) and by nothing else: no "
              "membership, ordering or pattern test", construct="case-only-"
              "equality", where=L.where(func), detail=str(sorted(set(cmp_ops))))
    rep.check("nodes.Equals" in cmp_ops, "R01.6", site, "tal:case compares "
              "its value with the switch value for equality",
              construct="case-equals", where=L.where(func),
              detail=str(sorted(set(cmp_ops))))


def _parsers(repo, rep):
    """Statement argument parsers: keyword alternatives of the regexes and
    the defaults applied when a keyword is absent."""
    from .. import rx
    rep.rule("R01.8", "statement argument parsers: keyword alternatives, "
                      "defaults (text / local), name lists")

    def first_group_words(name):
        rc = repo.const("chameleon.tal", name)
        tree = rx.parse(rc.pattern, rc.flags)
        words = set()

        def lit(items):
            out = ""
            for op, av in items:
                if op is rx.C.LITERAL:
                    out += chr(av)
                else:
                    return None
            return out

        def walk(items):
            for op, av in items:
                if op is rx.C.SUBPATTERN and av[0] == 1:
                    body = list(av[3])
                    if len(body) == 1 and body[0][0] is rx.C.BRANCH:
                        for alt in body[0][1][1]:
                            # sre factors common prefixes; rebuild words
                            w = lit(alt)
                            if w is not None:
                                words.add(w)
                    else:
                        # common prefix factored: prefix + branch
                        pre = ""
                        for op2, av2 in body:
                            if op2 is rx.C.LITERAL:
                                pre += chr(av2)
                            elif op2 is rx.C.BRANCH:
                                for alt in av2[1]:
                                    w = lit(alt)
                                    if w is not None:
                                        words.add(pre + w)
                    return True
                if op is rx.C.SUBPATTERN:
                    if walk(av[3]):
                        return True
                elif op in (rx.C.MAX_REPEAT, rx.C.MIN_REPEAT):
                    if walk(av[2]):
                        return True
                elif op is rx.C.BRANCH:
                    for alt in av[1]:
                        if walk(alt):
                            return True
            return False
        walk(list(tree))
        return words, rc
    w, rc = first_group_words("SUBST_RE")
    rep.check(w == {"text", "structure"}, "R01.8", "chameleon.tal.SUBST_RE",
              "content/replace/on-error accept the keywords text and "
              "structure", construct="subst-keywords", detail=str(sorted(w)))
    def keyword_separator(name):
        """the optional '(keyword)\\s+' prefix: what follows the keyword
        group inside its optional group must be at least one white-space
        character -- 'texts' / 'localx' are not keyword + rest"""
        rc_ = repo.const("chameleon.tal", name)
        pat = rc_.pattern if isinstance(rc_.pattern, str) else \
            rc_.pattern.decode("latin-1")
        tree = list(rx.parse(pat, rc_.flags))
        C = rx.C

        def find(items):
            items = list(items)
            for i, (op, av) in enumerate(items):
                if op is C.SUBPATTERN and av[0] is not None:
                    # first capturing group: look at its right neighbour
                    nxt = items[i + 1] if i + 1 < len(items) else None
                    return nxt
                sub = None
                if op is C.SUBPATTERN:
                    sub = find(av[3])
                elif op in (C.MAX_REPEAT, C.MIN_REPEAT):
                    sub = find(av[2])
                elif op is C.BRANCH:
                    for alt in av[1]:
                        sub = find(alt)
                        if sub is not None:
                            break
                if sub is not None:
                    return sub
            return None
        nxt = find(tree)
        if nxt is None or nxt[0] not in (C.MAX_REPEAT, C.MIN_REPEAT):
            return False, str(nxt)
        lo, hi, body = nxt[1]
        b = list(body)
        space = len(b) == 1 and b[0][0] is C.IN and any(
            o is C.CATEGORY and "SPACE" in str(a) for o, a in b[0][1])
        return (lo >= 1 and space), "min %s, whitespace %s" % (lo, space)
    for nm in ("SUBST_RE", "DEFINE_RE"):
        oks, detail = keyword_separator(nm)
        rep.check(oks, "R01.8", "chameleon.tal." + nm, "a statement keyword "
                  "is separated from what follows by at least one "
                  "white-space character", construct="keyword-separator:" +
                  nm, detail=detail)
    import re as _re
    import re._parser as _rp

    def ignorecase(rc):
        pat = rc.pattern if isinstance(rc.pattern, str) else \
            rc.pattern.decode("latin-1")
        try:
            return bool(_rp.parse(pat, rc.flags).state.flags & _re.I)
        except Exception as exc:
            raise AnalysisError("cannot parse regex: %s" % exc)
    rep.check(not ignorecase(rc), "R01.8", "chameleon.tal.SUBST_RE",
              "the keywords are matched case-sensitively (the consumers "
              "compare with == 'text': 'Text x' must not select another "
              "escape set)", construct="subst-keywords-case",
              detail="flags %s" % rc.flags)
    w, rc = first_group_words("DEFINE_RE")
    rep.check(not ignorecase(rc), "R01.8", "chameleon.tal.DEFINE_RE",
              "global / local are matched case-sensitively (the consumers "
              "compare with == 'local')", construct="define-keywords-case",
              detail="flags %s" % rc.flags)
    rep.check(w == {"global", "local"}, "R01.8", "chameleon.tal.DEFINE_RE",
              "define/repeat accept the keywords global and local",
              construct="define-keywords", detail=str(sorted(w)))
    f = repo.func("chameleon.tal.parse_substitution")
    t = L.text(f.node)
    rep.check("if not key: key = 'text'" in t and
              "return (key, expression)" in t, "R01.8", f.qualname,
              "without a keyword a substitution is text (escaped)",
              construct="subst-default", where=L.where(f))
    rep.check("(key, expression) = groups(m, clause)" in t or
              "key, expression = groups(m, clause)" in t, "R01.8",
              f.qualname, "keyword and expression are the two captured "
              "groups, in this order", construct="subst-groups",
              where=L.where(f))
    f = repo.func("chameleon.tal.parse_defines")
    t = L.text(f.node)
    rep.check("context = context or 'local'" in t, "R01.8", f.qualname,
              "without a keyword a definition is local",
              construct="define-default", where=L.where(f))
    rep.check("names = [n.strip() for n in name.strip('()').split(',')] "
              "if name.startswith('(') else (name,)" in t,
              "R01.8", f.qualname, "a parenthesised name list defines "
              "several names, a bare name one", construct="define-names",
              where=L.where(f))
    rep.check("defines.append((context, names, expr))" in t and
              "for part in split_parts(clause):" in t, "R01.8", f.qualname,
              "one (context, names, expression) triple per ';'-separated "
              "part, in written order", construct="define-triples",
              where=L.where(f))
    ve = repo.func(VE)
    t = L.text(ve.node)
    rep.check("nodes.Assignment(names, nodes.Value(expr), context == "
              "'local')" in t, "R01.8", ve.qualname, "the context keyword "
              "decides local vs global", construct="define-context",
              where=L.where(ve))
    statement_patterns(repo, rep)
    f = repo.func("chameleon.zpt.program.MacroProgram._make_content_node")
    t = L.text(f.node)
    rep.check("char_escape = ('&', '<', '>') if key == 'text' else ()" in t,
              "R01.8", f.qualname, "only the structure keyword switches "
              "escaping off", construct="subst-key-escape", where=L.where(f))


STATEMENT_PATTERNS = (
    # (module, constant, expression group, least width of the expression)
    ("chameleon.tal", "DEFINE_RE", 3, 0),
    ("chameleon.tal", "SUBST_RE", 2, 0),
    ("chameleon.tal", "ATTR_RE", 2, 1),
)


def statement_patterns(repo, rep, rule="R01.8"):
    """The statement patterns of tal.py, on their syntax trees: white space
    means every white-space character (a statement value may be wrapped over
    lines, or use tabs); a lazy white-space repeat never hands its blanks to
    the captured expression; a blank behind the comma of a name list is
    optional; and the pattern leaves an empty expression to the expression
    engine (which reports it at its position, deferred in non-strict mode):
    the expression group of tal:define / tal:content may be empty, that of
    a tal:attributes entry is at least its first character."""
    for modname, cname, gid, least in STATEMENT_PATTERNS:
        rc = repo.const(modname, cname)
        site = "%s.%s" % (modname, cname)
        probs, counts = L.regex_shape(rc.pattern, rc.flags)
        if counts["ws"] < 2:
            raise AnalysisError("%s: white-space repeats vanished" % site)
        rep.check(not probs, rule, site, "white space in the pattern is "
                  "any white space, lazily matched only where nothing "
                  "captured can take it, optional behind a comma "
                  "(%d repeats)" % counts["ws"],
                  construct="statement-space:" + cname,
                  detail="; ".join(sorted({t for k, t in probs})))
        w = L.group_width(rc.pattern, rc.flags, gid)
        if w is None:
            raise AnalysisError("%s: group %d vanished" % (site, gid))
        rep.check(w[0] == least and w[1] > 65535, rule, site, "the "
                  "expression group admits %s and has no upper bound" % (
                      "the empty text (the expression engine reports an "
                      "empty expression, at its position)" if least == 0
                      else "a one-character expression"),
                  construct="statement-expression-width:" + cname,
                  detail="width %s" % (w,))
    # split_parts: the scan consumes exactly what it recognises -- two
    # characters for an escaped ';;', one for a separator, one otherwise;
    # the entity scan starts at the beginning; a trailing empty part is
    # dropped only when it is not the only part
    sp = repo.func("chameleon.tal.split_parts")
    bad = []
    loops = [n for n in sp.node.body if isinstance(n, ast.While)]
    scan = [lp for lp in loops if any(
        isinstance(x, ast.Compare) and "';'" in src(x) for x in ast.walk(lp))]
    ent = [lp for lp in loops if lp not in scan]
    if len(scan) != 1 or len(ent) != 1:
        rep.check(False, rule, sp.qualname, "the part splitter is one scan "
                  "for entities and one scan for separators",
                  construct="split-parts-steps", where=L.where(sp),
                  detail="%d loops" % len(loops))
        return
    # entity scan: starts at 0
    starts = [a for a in sp.node.body if isinstance(a, ast.Assign)
              and a.lineno < ent[0].lineno
              and any(src(t) == "i" for t in a.targets)]
    def _const_int(e):
        try:
            return int(ast.literal_eval(e))
        except (ValueError, TypeError):
            return None
    # (a negative start position is clamped to 0 by the regex engine)
    if not starts or _const_int(starts[-1].value) is None or \
            _const_int(starts[-1].value) > 0:
        bad.append("the entity scan does not start at offset 0")
    for c in ast.walk(ent[0]):
        if isinstance(c, ast.Call) and src(c.func).endswith(".search") and \
                (len(c.args) < 2 or src(c.args[1]) != "i"):
            bad.append("the entity scan does not continue at i")
    for a in ast.walk(ent[0]):
        if isinstance(a, ast.Call) and src(a.func) == "protected.add" and \
                src(a.args[0]).replace(" ", "") != "m.end()-1":
            bad.append("the protected offset is %s, the ';' of an entity "
                       "is its last character" % src(a.args[0]))
    lp = scan[0]
    for n in ast.walk(lp):
        if isinstance(n, ast.AugAssign) and src(n.target) == "i" and \
                isinstance(n.op, ast.Add):
            gs = [src(t_) for t_, v_ in L.guards_of(n, lp) if isinstance(
                t_, ast.expr) and v_]
            escaped = any("arg[i + 1] == ';'" in g_.replace(
                "';' == arg[i + 1]", "arg[i + 1] == ';'") for g_ in gs)
            want = 2 if escaped else 1
            if not (isinstance(n.value, ast.Constant)
                    and n.value.value == want):
                bad.append("i advances by %s %s" % (
                    src(n.value), "over an escaped ';;' (two characters)"
                    if escaped else "over one character"))
        if isinstance(n, ast.Assign) and src(n.targets[0]) == "start" and \
                src(n.value).replace(" ", "") != "i+1":
            bad.append("the next part starts at %s (the separator is one "
                       "character)" % src(n.value))
        if isinstance(n, ast.Call) and src(n.func) == "parts.append" and \
                src(n.args[0]).replace(" ", "") != "arg[start:i]":
            bad.append("a part is %s" % src(n.args[0]))
    drops = [n for n in ast.walk(sp.node) if isinstance(n, ast.Delete)]
    for d in drops:
        gtxt = " ".join(src(t_) for t_, v_ in L.guards_of(d, sp.node)
                        if isinstance(t_, ast.expr))
        if "parts[-1].strip()" not in gtxt:
            bad.append("the trailing part is dropped only when it is "
                       "literally empty (a statement that ends in ';' and "
                       "a line break or blanks is valid)")
        if not any(isinstance(t_, ast.expr) and "len(parts)" in src(t_)
                   for t_, v_ in L.guards_of(d, sp.node)):
            bad.append("the trailing empty part is dropped whatever the "
                       "number of parts (a lone empty part has to stay: an "
                       "empty statement is an error)")
        for t_, v_ in L.guards_of(d, sp.node):
            if isinstance(t_, ast.expr) and "len(parts)" in src(t_):
                for cj in (t_.values if isinstance(t_, ast.BoolOp)
                           else [t_]):
                    if "len(parts)" in src(cj) and isinstance(
                            cj, ast.Compare):
                        e = ast.parse(src(cj).replace("len(parts)", "n_"),
                                      mode="eval").body
                        tv = [L.int_guard_truth(e, "n_", k)
                              for k in (1, 2, 3)]
                        if tv != [False, True, True]:
                            bad.append("the trailing empty part is dropped "
                                       "when %s (a lone empty part has to "
                                       "stay: an empty statement is an "
                                       "error)" % src(cj))
    rep.check(not bad, rule, sp.qualname, "the part splitter consumes what "
              "it recognises: two characters for ';;', one for a "
              "separator; entities are looked for from the start; a lone "
              "empty part stays", construct="split-parts-steps",
              where=L.where(sp), detail="; ".join(bad))


def _tables(repo, rep, func):
    wl = repo.const("chameleon.tal", "WHITELIST")
    chk = repo.func("chameleon.zpt.program.MacroProgram._check_attributes")
    read = set()
    for f in (func, chk):
        for n in ast.walk(f.node):
            if isinstance(n, ast.Tuple) and len(n.elts) == 2 and \
                    isinstance(n.elts[0], ast.Name) and \
                    n.elts[0].id == "TAL" and \
                    isinstance(n.elts[1], ast.Constant):
                read.add(n.elts[1].value)
    ignore = {"comment": "documentation only", "xmlns": "namespace plumbing",
              "xml": "namespace plumbing"}
    for name in sorted(wl):
        rep.check(name in read or name in ignore, "R01.7",
                  "chameleon.tal.WHITELIST",
                  "whitelisted statement tal:%s is handled by visit_element "
                  "(or deliberately ignored)" % name,
                  construct="unhandled:" + name)
    for name in sorted(read):
        rep.check(name in wl, "R01.7", func.qualname,
                  "statement tal:%s that visit_element reads is accepted by "
                  "the whitelist" % name, construct="not-whitelisted:" + name)
