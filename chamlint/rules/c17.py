"""C17 -- byte input is decoded by BOM / XML declaration / meta charset, then
acts as str."""
from __future__ import annotations

import ast
import codecs

from .. import lib as L
from .. import paths as P
from ..core import AnalysisError, NotConst, src

U = "chameleon.utils."


def run(repo, rep, tier):
    rep.explanation = (
        "The decoding decision is a small decision procedure (read_bytes) "
        "over a constant table (xml_prefixes).  The table is constant-folded "
        "(codecs.BOM_* are standard-library constants) and checked row by "
        "row in the order read_bytes iterates it: no row's BOM may be a "
        "proper prefix of a later row's BOM that is still reachable, and "
        "for every reachable row the byte-order mark must not survive "
        "decoding -- either the code cuts the BOM bytes off before decoding "
        "or the listed codec consumes them (decided by decoding the constant "
        "BOM with the constant codec name).  All paths of read_bytes are "
        "enumerated to check the decision order BOM, XML declaration, meta "
        "charset, default, and that XML mode is reported exactly for "
        "documents that start with an XML declaration.  The callers must "
        "store the reported content type and encoding, and PageTemplate.parse "
        "must guard HTML-only behaviour with content_type != 'text/xml'.")
    rep.assumptions = [
        "acceptance of RE_ENCODING / RE_META (declaration and meta spelling) "
        "is value-level and not decided",
        "codecs of the running Python; the table is folded for this "
        "platform's byte order",
    ]
    rep.rule("R17.1", "decision order: BOM table, XML declaration, meta "
                      "charset, default encoding")
    rep.rule("R17.2", "BOM table: no reachable row is shadowed; no BOM "
                      "survives decoding")
    rep.rule("R17.3", "XML mode iff the document starts with an XML "
                      "declaration; the decision is stored and guards "
                      "HTML-only behaviour")
    _table(repo, rep)
    _order(repo, rep)
    _mode(repo, rep)
    # HTML documents: CRLF and lone CR become LF, for bytes, str and files
    # alike (C03 owns the rewrite)
    from . import c03 as _c03
    L.borrow(repo, rep, "R17.3", "C03", _c03._newlines,
             ("newline-rewrite", "newline-guard", "rewrites"), minimum=1)
    # outside XML mode the boolean attributes of HTML are implicit: the
    # default table is complete (C07 owns it)
    from . import c07 as _c07
    L.borrow(repo, rep, "R17.3", "C07", _c07._defaults, ("html-table",))
    # the encoding a file was read with is not the encoding its result is
    # written in (C20 owns the text template's render)
    from . import c20 as _c20
    L.borrow(repo, rep, "R17.1", "C20", _c20._bytes, ("encode",))
    _results(repo, rep)
    L.state_rule(repo, rep)


def _results(repo, rep):
    """every exit of read_bytes hands back (the decoded document, the name of
    the codec it was decoded with, the content type): the first item is a
    decode of the input (less the byte order mark) with that codec, the
    second the codec's name"""
    f = repo.func("chameleon.utils.read_bytes")
    prm = f.node.args.args[0].arg
    rets = [r_ for r_ in ast.walk(f.node) if isinstance(r_, ast.Return)]
    bad = []
    for r_ in rets:
        v = r_.value
        if not (isinstance(v, ast.Tuple) and len(v.elts) == 3):
            bad.append(src(r_)[:60])
            continue
        doc = L.inline_locals(f.node, v.elts[0])
        enc = src(v.elts[1])
        okd = isinstance(doc, ast.Call) and isinstance(
            doc.func, ast.Attribute) and doc.func.attr == "decode" and \
            len(doc.args) == 1 and src(doc.args[0]) == enc and (
                src(doc.func.value) == prm or (
                    isinstance(doc.func.value, ast.Subscript) and
                    src(doc.func.value.value) == prm))
        if not okd or enc != "encoding":
            bad.append("%s, %s" % (src(doc)[:40], enc))
    rep.check(len(rets) >= 4 and not bad, "R17.1", f.qualname, "every exit "
              "returns the input decoded with the codec it names (%d exits)"
              % len(rets), construct="result-decoded-with-named-codec",
              where=L.where(f), detail="; ".join(bad))
    # the search for the declared encoding is bounded by the end of the
    # declaration, or by the length of the document when it never ends
    rx_ = repo.func("chameleon.utils.read_xml_encoding")
    searches = [c for c in ast.walk(rx_.node) if isinstance(c, ast.Call)
                and src(c.func).endswith(".search") and len(c.args) == 3]
    oks = bool(searches)
    for c in searches:
        e = c.args[2]
        alts = [e.body, e.orelse] if isinstance(e, ast.IfExp) else [e]
        for a in alts:
            if isinstance(a, ast.Call) and src(a.func) == "len" and \
                    src(a.args[0]) != src(c.args[0]):
                oks = False
    rep.check(oks, "R17.1", rx_.qualname, "an unterminated declaration is "
              "searched up to the end of the document",
              construct="declaration-search-bound", where=L.where(rx_))


def _table(repo, rep):
    rows = repo.const("chameleon.utils", "xml_prefixes")
    m = repo.module("chameleon.utils")
    site = U + "xml_prefixes"
    rep.check(isinstance(rows, tuple) and len(rows) >= 5, "R17.2", site,
              "the BOM table folds to constants", construct="table",
              detail=str(rows)[:120])
    # the table serves two look-ups: by byte-order mark, and -- for a
    # document without one -- by the encoded '<?xml' prefix of each
    # encoding; it therefore has a row for every encoding form of UTF-8 /
    # UTF-16 / UTF-32 (native and both byte orders), also where two marks
    # coincide on this machine
    import codecs as _codecs
    have = {enc for bom, enc in rows} if isinstance(rows, tuple) else set()
    need = {"utf-8-sig", "utf-16", "utf-16-le", "utf-16-be", "utf-32",
            "utf-32-le", "utf-32-be"}
    rep.check(need <= have, "R17.2", site, "the table has a row for each of "
              "the seven Unicode encoding forms (a UTF-16-LE document "
              "without a mark is recognised by its encoded '<?xml')",
              construct="table-rows", detail="missing: %s" % sorted(
                  need - have))
    # iteration order used by read_bytes: _xml_prefixes
    px = m.assigns.get("_xml_prefixes")
    if not px:
        raise AnalysisError("_xml_prefixes vanished")
    ptxt = src(px[-1], 400)
    rev = "reversed(xml_prefixes)" in ptxt
    filt = "_has_encoding(encoding)" in ptxt
    rep.check("xml_prefixes" in ptxt, "R17.2", U + "_xml_prefixes",
              "the search table is derived from xml_prefixes",
              construct="derived", detail=ptxt[:120])
    order = list(reversed(rows)) if rev else list(rows)
    # does read_bytes cut the BOM off before decoding?
    rb = repo.func(U + "read_bytes")
    cuts = False
    decodes = []
    for n in ast.walk(rb.node):
        if isinstance(n, ast.For) and "_xml_prefixes" in src(n.iter):
            for c in ast.walk(n):
                if isinstance(c, ast.If) and src(c.test) == \
                        "body.startswith(bom)":
                    for d in ast.walk(c):
                        if isinstance(d, ast.Call) and \
                                isinstance(d.func, ast.Attribute) and \
                                d.func.attr == "decode":
                            decodes.append(d)
    strips_after = any(
        isinstance(n, ast.Call) and isinstance(n.func, ast.Attribute)
        and n.func.attr in ("lstrip", "removeprefix") and
        "\\ufeff" in src(n) for n in ast.walk(rb.node))
    rep.check(len(decodes) == 1, "R17.2", rb.qualname, "a BOM-carrying "
              "document is decoded in one place", construct="bom-decode",
              where=L.where(rb), detail=str(len(decodes)))
    if decodes:
        recv = src(decodes[0].func.value)
        cuts = recv.replace(" ", "") == "body[len(bom):]"
        rep.check(src(decodes[0].args[0]) == "encoding" if decodes[0].args
                  else False, "R17.2", rb.qualname, "it is decoded with the "
                  "codec of the matching row", construct="bom-codec",
                  where=L.where(rb))
    seen = []
    for bom, codec in order:
        shadow = [b for b, c in seen if bom.startswith(b)]
        if shadow:
            # unreachable on this platform (e.g. BOM_UTF16 == BOM_UTF16_LE)
            same = [b for b in shadow if b == bom]
            rep.check(bool(same), "R17.2", site,
                      "row (%r, %s) is only shadowed by an identical BOM "
                      "(platform alias), never by a shorter one" % (
                          bom, codec), construct="shadowed:%s" % codec,
                      detail="earlier BOM %r is a proper prefix" % shadow[0])
            seen.append((bom, codec))
            continue
        seen.append((bom, codec))
        try:
            left = bom.decode(codec)
        except (LookupError, UnicodeDecodeError) as exc:
            left = "<%s>" % type(exc).__name__
        rep.check(left in ("", "\ufeff"), "R17.2", site,
                  "row (%r, %s): the codec reads its own byte-order mark as "
                  "a byte-order mark (byte order and width agree)" % (
                      bom, codec), construct="bom-codec-mismatch:%s" % codec,
                  detail="%r.decode(%r) == %r" % (bom, codec, left))
        ok = cuts or strips_after or left == ""
        rep.check(ok, "R17.2", site,
                  "row (%r, %s): the byte-order mark does not survive "
                  "decoding" % (bom, codec),
                  construct="bom-survives:%s" % codec,
                  detail="the BOM is not cut off before decoding and "
                         "%r.decode(%r) == %r" % (bom, codec, left))
        # whichever way: the codec must exist
        try:
            codecs.lookup(codec)
            okc = True
        except LookupError:
            okc = False
        rep.check(okc or filt, "R17.2", site, "codec %s exists (or missing "
                  "codecs are filtered out)" % codec,
                  construct="codec:" + codec)
    # prefix order: longer BOM first where one is a prefix of another
    for i, (b1, c1) in enumerate(order):
        for b2, c2 in order[i + 1:]:
            if b2 != b1 and b2.startswith(b1):
                rep.bad("R17.2", site, "a BOM that is a proper prefix of "
                        "another is tested after it", "prefix-order:%s<%s" % (
                            c1, c2), "%r (%s) is tested before %r (%s)" % (
                            b1, c1, b2, c2))
    rep.ok("R17.2", site, "BOMs that are prefixes of longer BOMs are tested "
                          "later (UTF-32 before UTF-16)")


def _order(repo, rep):
    rb = repo.func(U + "read_bytes")
    site = rb.qualname
    wh = L.where(rb)
    body = rb.node.body
    first = body[0] if body else None
    ok = isinstance(first, ast.For) and "_xml_prefixes" in src(first.iter)
    rep.check(ok, "R17.1", site, "the BOM / encoded-declaration table is "
              "consulted first", construct="bom-first", where=wh)
    rest = [s for s in body[1:] if not isinstance(s, (ast.AnnAssign,))
            or s.value is not None]
    ifs = [s for s in rest if isinstance(s, ast.If)]
    pt, flip = L._CanonIf._pos(ifs[0].test) if ifs else (None, False)
    ok = bool(ifs) and src(pt) == "body.startswith(_xml_decl)"
    rep.check(ok, "R17.1", site, "then the XML declaration", "decl-second",
              where=wh)
    if ok:
        # the branches as taken with / without a declaration, whichever way
        # the test is written
        yes, no = (ifs[0].orelse, ifs[0].body) if flip else \
            (ifs[0].body, ifs[0].orelse)
        t = L.StmtText(L._owner(ifs[0]), list(yes))
        rep.check("read_xml_encoding(body) or default_encoding" in t and
                  "content_type = 'text/xml'" in t, "R17.1", site,
                  "an XML declaration gives text/xml and its encoding, else "
                  "the default encoding", construct="decl-branch", where=wh)
        t = L.StmtText(L._owner(ifs[0]), list(no))
        rep.check("detect_encoding(body, default_encoding)" in t, "R17.1",
                  site, "without a declaration the meta charset decides, "
                  "else the default", construct="meta-third", where=wh)
    last = body[-1]
    rep.check(isinstance(last, ast.Return) and
              src(last.value).startswith("(body.decode(encoding), encoding, "
                                         "content_type"), "R17.1", site,
              "the document is decoded with the chosen encoding and both "
              "decisions are returned", construct="return", where=wh,
              detail=src(last)[:90])
    de = repo.func(U + "detect_encoding")
    t = L.text(de.node)
    rep.check("RE_META.search(body)" in t and
              "return (None, default_encoding)" in t, "R17.1", de.qualname,
              "meta charset if present, else (None, default)",
              construct="detect", where=L.where(de))
    # the whole document is searched, bytes or str: the searched value is
    # the parameter or a decode of it -- never a slice, never a bounded search
    calls = [n for n in ast.walk(de.node) if isinstance(n, ast.Call)
             and isinstance(n.func, ast.Attribute) and n.func.attr in (
                 "search", "match", "finditer", "findall")
             and src(n.func.value) == "RE_META"]
    param = de.node.args.args[0].arg if de.node.args.args else None
    whole = len(calls) == 1 and len(calls[0].args) == 1 and \
        not calls[0].keywords and calls[0].func.attr == "search" and \
        isinstance(calls[0].args[0], ast.Name)
    detail = ""
    if whole:
        var = calls[0].args[0].id
        defs = [n.value for n in ast.walk(de.node)
                if isinstance(n, ast.Assign) and any(
                    isinstance(x, ast.Name) and x.id == var
                    for x in n.targets)]
        if var != param and not defs:
            whole = False
        for d in defs:
            base = d
            while isinstance(base, ast.Call) and isinstance(
                    base.func, ast.Attribute) and base.func.attr in (
                        "decode",):
                base = base.func.value
            if not (isinstance(base, ast.Name) and base.id in (param, var)):
                whole = False
                detail = "searched value is " + src(d)
    rep.check(whole, "R17.1", de.qualname, "the meta charset is looked for in "
              "the whole document, for bytes and str alike (the searched "
              "value is the parameter or its decoding, not a slice)",
              construct="detect-whole-body", where=L.where(de), detail=detail)
    xe = repo.func(U + "read_xml_encoding")
    t = L.text(xe.node)
    rep.check(any(isinstance(n, ast.Call) and
                  src(n.func) == "RE_ENCODING.search" and n.args and
                  src(n.args[0]).startswith("body") for n in ast.walk(
                      xe.node)) and "return None" in t and
              "body.startswith(b'<?xml')" in t, "R17.1", xe.qualname,
              "the declared encoding is read from a document that starts "
              "with <?xml only", construct="xml-encoding", where=L.where(xe))
    # the XML declaration grammar: EncodingDecl ::= S 'encoding' Eq
    # ('"' EncName '"' | "'" EncName "'"),  Eq ::= S? '=' S?
    er = repo.const("chameleon.utils", "RE_ENCODING")
    site_re = U + "RE_ENCODING"
    ok_eq = ok_q = ok_name = False
    if hasattr(er, "pattern"):
        from .. import rx
        C = rx.C
        pat = er.pattern if isinstance(er.pattern, str) else \
            er.pattern.decode("latin-1")
        tree = list(rx.parse(pat, 0))
        # flatten literals to find the '=' and what surrounds it
        kinds = []
        for op, av in tree:
            if op is C.LITERAL:
                kinds.append(("lit", chr(av)))
            elif op in (C.MAX_REPEAT, C.MIN_REPEAT):
                lo, hi, body = av
                b = list(body)
                cat = len(b) == 1 and b[0][0] is C.IN and any(
                    o is C.CATEGORY and "SPACE" in str(a) for o, a in b[0][1])
                kinds.append(("space*" if cat and lo == 0 else
                              "space+" if cat else "rep", None))
            elif op is C.SUBPATTERN:
                kinds.append(("group", av))
            elif op is C.IN:
                kinds.append(("in", rx.in_set(av)))
            elif op is C.BRANCH:
                kinds.append(("branch", av))
            else:
                kinds.append((str(op), av))
        eq = [i for i, k in enumerate(kinds) if k == ("lit", "=")]
        if len(eq) == 1:
            i = eq[0]
            ok_eq = i > 0 and i + 1 < len(kinds) and \
                kinds[i - 1][0] == "space*" and kinds[i + 1][0] == "space*"
        quotes = set()

        def qs(items):
            for op, av in items:
                if op is C.LITERAL and chr(av) in "\"'":
                    quotes.add(chr(av))
                elif op is C.IN:
                    cs = rx.in_set(av)
                    for ch in "\"'":
                        if ch in cs and not rx.CharSet.of("a") <= cs \
                                if False else ch in cs and "a" not in cs:
                            quotes.add(ch)
                elif op is C.BRANCH:
                    for alt in av[1]:
                        qs(alt)
                elif op is C.SUBPATTERN:
                    if rx.group_tree(rx.parse(pat, 0))[1].get(
                            "encoding") != av[0]:
                        qs(av[3])
        qs(tree)
        ok_q = quotes == {'"', "'"}
        parents, names = rx.group_tree(rx.parse(pat, 0))
        gid = names.get("encoding")
        for op, av in tree:
            if op is C.SUBPATTERN and av[0] == gid:
                body = list(av[3])
                if len(body) == 1 and body[0][0] in (C.MAX_REPEAT,
                                                     C.MIN_REPEAT):
                    inner = list(body[0][1][2])
                    if len(inner) == 1 and inner[0][0] is C.IN:
                        cs = rx.in_set(inner[0][1])
                        need = rx.CharSet([(48, 57), (65, 90), (97, 122),
                                           (45, 45), (95, 95)])
                        ok_name = cs.issuperset(need) and body[0][1][0] >= 1
    rep.check(ok_eq, "R17.1", site_re, "the declaration pattern allows "
              "optional white space on both sides of '=' (XML: Eq ::= S? "
              "'=' S?)", construct="decl-eq-space",
              detail=str(getattr(er, "pattern", er))[:120])
    rep.check(ok_q, "R17.1", site_re, "the encoding name may be quoted with "
              "either quote character", construct="decl-quotes")
    rep.check(ok_name, "R17.1", site_re, "the encoding name is a non-empty "
              "run of letters, digits, '-' and '_'", construct="decl-name")
    rep.check(bool(getattr(er, "flags", 0) & 2), "R17.1", site_re,
              "the declaration is matched case-insensitively",
              construct="decl-ignorecase")
    _declaration_scope(repo, rep)
    _meta_grammar(repo, rep)
    _meta_group_roles(repo, rep)
    _meta_shape(repo, rep)
    _reader_details(repo, rep)
    dv = repo.cls("chameleon.template.BaseTemplate").attrs.get(
        "default_encoding")
    rep.check(isinstance(dv, ast.Constant) and dv.value == "utf-8", "R17.1",
              "chameleon.template.BaseTemplate.default_encoding",
              "the default encoding is utf-8", construct="default-encoding")


def _bom_outcomes(rb, P):
    """(mode ok, type ok, outcomes, detail) for the returns of read_bytes
    that follow the decoding of a BOM-carrying document"""
    okm = okt = True
    n = 0
    detail = ""
    for p in P.enum_paths(rb.node.body, unroll=1):
        if p[-1][0] != "return" or p[-1][1] is None:
            continue
        doc = None
        env = {}
        for ev in p:
            if ev[0] == "assign":
                tgt = ev[1].strip("()")
                if "," in tgt and isinstance(ev[2], ast.Call):
                    for i, nm in enumerate(x.strip() for x in
                                           tgt.split(",")):
                        env[nm] = ast.Subscript(
                            ev[2], ast.Constant(i), ast.Load())
                else:
                    env[tgt] = ev[2]
                if ".decode(" in src(ev[2]) and "len(bom)" in src(ev[2]):
                    doc = tgt
        if doc is None:
            continue
        rv = p[-1][1]
        if not (isinstance(rv, ast.Tuple) and len(rv.elts) == 3):
            okm = False
            detail = "return %s" % src(rv)
            continue
        conds = [(src(e[1]), e[2]) for e in p if e[0] == "cond"]
        todo = [(rv.elts[2], conds)]
        while todo:
            e, cs = todo.pop()
            if isinstance(e, ast.Name) and e.id in env:
                e = env[e.id]
            if isinstance(e, ast.IfExp):
                c = P._cond(e.test, True, None)
                todo.append((e.body, cs + [(src(c[1]), c[2])]))
                todo.append((e.orelse, cs + [(src(c[1]), not c[2])]))
                continue
            n += 1
            test = "%s.startswith('<?xml')" % doc
            if isinstance(e, ast.Constant) and e.value == "text/xml":
                if not L.cond_holds(cs, test, True):
                    okm = False
                    detail = "'text/xml' returned without testing %s" % test
                continue
            if not L.cond_holds(cs, test, False):
                okm = False
                detail = "%s returned for a document that may start with " \
                         "<?xml" % src(e)
            calls = [c for c in ast.walk(e) if isinstance(c, ast.Call)
                     and src(c.func).split(".")[-1] == "detect_encoding"
                     and c.args and src(c.args[0]) == doc]
            if not calls:
                okt = False
                detail = "content type %s does not come from " \
                         "detect_encoding(%s, ...)" % (src(e), doc)
    return okm, okt, n, detail


def _mode(repo, rep):
    rb = repo.func(U + "read_bytes")
    site = rb.qualname
    from .. import paths as P
    okm, okt, n_bom, detail = _bom_outcomes(rb, P)
    rep.check(okm and n_bom >= 2, "R17.3", site, "a BOM-carrying document is "
              "XML iff, after decoding, it starts with an XML declaration",
              construct="bom-mode", where=L.where(rb),
              detail=detail or "%d outcome(s)" % n_bom)
    rep.check(okt and n_bom >= 2, "R17.3", site, "a BOM-carrying document "
              "that is not XML reports the content type of its meta element "
              "like the same document supplied as str (detect_encoding on "
              "the decoded text), not a constant",
              construct="bom-meta-type", where=L.where(rb),
              detail=detail or "%d outcome(s)" % n_bom)
    for q, reader in (("chameleon.template.BaseTemplate.write", "read_bytes"),
                      ("chameleon.template.BaseTemplateFile.read",
                       "read_bytes")):
        f = repo.func(q)
        t = L.text(f.node)
        rep.check("self.content_type = content_type or "
                  "self.default_content_type" in t and
                  "self.content_encoding = encoding" in t and
                  reader + "(" in t, "R17.3", f.qualname,
                  "the sniffing result is stored on the template",
                  construct="stored", where=L.where(f))
    # every read sniffs afresh: all returning paths pass read_bytes, and
    # nothing of an earlier read (stored type / encoding) is consulted
    rd = repo.func("chameleon.template.BaseTemplateFile.read")
    from .. import paths as P
    rpaths = [p for p in P.enum_paths(rd.node.body) if p[-1][0] == "return"]
    miss = [p for p in rpaths if not any(
        src(c.func) == "read_bytes" for c, _ in P.calls_on_path(p))]
    rep.check(bool(rpaths) and not miss, "R17.3", rd.qualname, "every path "
              "of read() that returns a document has decoded it through "
              "read_bytes (BOM, declaration, meta, default -- on every read, "
              "also after a reload)", construct="read-always-sniffs",
              where=L.where(rd), detail=P.path_text(miss[0], 12)
              if miss else "")
    stale = [src(n) for n in ast.walk(rd.node)
             if isinstance(n, ast.Attribute) and isinstance(n.ctx, ast.Load)
             and src(n.value) == "self"
             and n.attr in ("content_encoding", "content_type", "__dict__")]
    rep.check(not stale, "R17.3", rd.qualname, "read() does not consult the "
              "encoding / type remembered from an earlier read",
              construct="read-history-free", where=L.where(rd),
              detail=str(stale))
    w = repo.func("chameleon.template.BaseTemplate.write")
    t = L.text(w.node)
    rep.check("body.startswith('<?xml')" in t and
              "content_type = 'text/xml'" in t, "R17.3", w.qualname,
              "a str document is XML iff it starts with an XML declaration",
              construct="str-mode", where=L.where(w))
    rep.check(t.index("self.content_type =") < t.index("self.cook(body)")
              if "self.cook(body)" in t and "self.content_type =" in t
              else False, "R17.3", w.qualname, "the mode is known before the "
              "template is compiled", construct="mode-before-cook",
              where=L.where(w))
    pt = repo.cls("chameleon.zpt.template.PageTemplate")
    dct = pt.attrs.get("default_content_type")
    rep.check(isinstance(dct, ast.Constant) and dct.value == "text/html",
              "R17.3", pt.qualname, "everything else is HTML",
              construct="default-html")
    p = repo.func("chameleon.zpt.template.PageTemplate.parse")
    paths = P.enum_paths(p.node.body)
    okn = bool(paths)
    okb = True
    for pa in paths:
        conds = {src(e[1]): e[2] for e in pa if e[0] == "cond"}
        html = conds.get("self.content_type != 'text/xml'")
        if html is None:
            html = not conds.get("self.content_type == 'text/xml'", False) \
                if "self.content_type == 'text/xml'" in conds else None
        rew = [e for e in pa if e[0] == "assign" and e[1] == "body"
               and ".replace('\\r\\n', '\\n')" in src(e[2])]
        if html is None:
            okn = False
        elif bool(rew) != bool(html):
            okn = False
        dflt = [e for e in pa if e[0] == "assign"
                and e[1] == "boolean_attributes"
                and "BOOLEAN_HTML_ATTRIBUTES" in src(e[2])]
        if dflt and not html:
            okb = False
    rep.check(okn, "R17.3", p.qualname, "on every path: newlines are "
              "rewritten iff the document is not XML (independent of any "
              "other option)", construct="newline-iff-html",
              where=L.where(p))
    rep.check(okb, "R17.3", p.qualname, "on every path: the HTML boolean "
              "attribute defaults are applied only outside XML mode",
              construct="bools-only-html", where=L.where(p))
    guards = [n for n in ast.walk(p.node) if isinstance(n, ast.If)
              and src(n.test) == "self.content_type != 'text/xml'"]
    ok = len(guards) == 1
    inside = L.text(guards[0], body_only=True) if ok else ""
    rep.check(okn and okb, "R17.3", p.qualname,
              "implicit boolean attributes and newline rewriting are HTML-"
              "only (guarded by content_type != 'text/xml')",
              construct="xml-guards", where=L.where(p))


def _declaration_scope(repo, rep):
    """The encoding is the one *in the XML declaration*: the pattern may
    only be looked for between '<?xml' and the first '?>' (an attribute
    encoding="..." further down is document content)."""
    xe = repo.func(U + "read_xml_encoding")
    calls = [n for n in ast.walk(xe.node) if isinstance(n, ast.Call)
             and isinstance(n.func, ast.Attribute)
             and src(n.func.value) == "RE_ENCODING"]
    ok = False
    detail = ""
    for c in calls:
        full = L.inline_locals(xe.node, c)
        t = src(full).replace(" ", "")
        detail = src(full)[:140]
        bounded = len(c.args) >= 3 or (
            c.args and isinstance(L.inline_locals(xe.node, c.args[0]),
                                  ast.Subscript))
        # the FIRST '?>' ends the declaration (find / index / partition /
        # split(.., 1)[0]), not the last one of the document
        firsts = [x for x in ast.walk(full) if isinstance(x, ast.Call)
                  and isinstance(x.func, ast.Attribute) and x.args
                  and isinstance(x.args[0], ast.Constant)
                  and x.args[0].value == b"?>"]
        ok = bounded and bool(firsts) and all(
            x.func.attr in ("find", "index", "partition", "split")
            for x in firsts)
    rep.check(ok, "R17.1", xe.qualname, "the declared encoding is looked for "
              "inside the XML declaration only (up to the first '?>')",
              construct="declaration-only", where=L.where(xe), detail=detail)


def _meta_grammar(repo, rep):
    """<meta http-equiv=Content-Type content="type; charset=X">: either
    attribute order, quoted or not; an unquoted charset ends with the value
    (white space, '/', '>')."""
    from .. import rx
    import re as _re
    C = rx.C
    rc = repo.const("chameleon.utils", "RE_META")
    pat = rc.pattern
    tree = list(rx.parse(pat, rc.flags))

    def literal_runs(items):
        """sequence of literal words in one alternative"""
        out, cur = [], ""
        for op, av in items:
            if op is C.LITERAL:
                cur += chr(av).lower()
                continue
            if cur:
                out.append(cur)
                cur = ""
            if op is C.SUBPATTERN:
                out += literal_runs(av[3])
            elif op in (C.MAX_REPEAT, C.MIN_REPEAT):
                out += literal_runs(av[2])
        if cur:
            out.append(cur)
        return out

    def alternatives(items):
        """flatten top-level branches into alternative item lists"""
        alts = [[]]
        for op, av in items:
            if op is C.BRANCH:
                new = []
                for a in alts:
                    for b in av[1]:
                        for sub in alternatives(list(b)):
                            new.append(a + sub)
                alts = new
            elif op is C.SUBPATTERN and av[0] is None:
                new = []
                for a in alts:
                    for sub in alternatives(list(av[3])):
                        new.append(a + sub)
                alts = new
            else:
                alts = [a + [(op, av)] for a in alts]
        return alts
    orders = set()
    for alt in alternatives(tree):
        words = [w for w in literal_runs(alt)
                 if w.startswith(("http-equiv", "content"))]
        # 'content-type' (the value) also starts with 'content': keep the
        # attribute names only
        seq = []
        for w in words:
            if w.startswith("http-equiv"):
                seq.append("h")
            elif w.startswith("content") and not w.startswith("content-type"):
                seq.append("c")
        orders.add("".join(seq))
    rep.check({"hc", "ch"} <= orders, "R17.1", U + "RE_META", "the meta "
              "element is recognised with http-equiv before content and "
              "with content before http-equiv", construct="meta-order",
              detail="orders accepted: %s" % sorted(orders))
    # charset value class
    classes = []

    def walk(items):
        for op, av in items:
            if op is C.SUBPATTERN:
                if av[0] is not None:
                    inner = list(av[3])
                    if len(inner) == 1 and inner[0][0] in (
                            C.MAX_REPEAT, C.MIN_REPEAT):
                        b = list(inner[0][1][2])
                        if len(b) == 1 and b[0][0] is C.IN:
                            classes.append((av[0], rx.in_set(b[0][1])))
                walk(av[3])
            elif op in (C.MAX_REPEAT, C.MIN_REPEAT):
                walk(av[2])
            elif op is C.BRANCH:
                for a in av[1]:
                    walk(a)
    walk(tree)
    # every capturing single-class group must stop at '>' unless it is the
    # content-type group (which stops at ';')
    bad = [str(cs)[:60] for gid, cs in classes
           if ">" in cs and ";" in cs]
    rep.check(bool(classes) and not bad, "R17.1", U + "RE_META", "an "
              "unquoted charset value ends at white space, '/' or '>' (it "
              "cannot run on into the document)",
              construct="meta-charset-class", detail=str(bad))
    # white space around '=' and after the ';' of the content value is
    # optional ("text/html;charset=x" and "text/html; charset = x" are the
    # same declaration): a white-space repeat next to one of these
    # punctuation marks has no lower bound
    ws = rx.CharSet.of(" \t\n\r\f\v")
    n_sites = 0
    badws = []

    def is_ws_repeat(item):
        op, av = item
        if op not in (C.MAX_REPEAT, C.MIN_REPEAT):
            return None
        body = list(av[2])
        if len(body) == 1 and body[0][0] is C.IN and \
                ws <= rx.in_set(body[0][1]):
            return av[0]
        return None
    for alt in alternatives(tree):
        flat = []

        def flatten(items):
            for op, av in items:
                if op is C.SUBPATTERN:
                    flatten(list(av[3]))
                else:
                    flat.append((op, av))
        flatten(alt)
        for i, it in enumerate(flat):
            mn = is_ws_repeat(it)
            if mn is None:
                continue
            prev = flat[i - 1] if i else None
            nxt = flat[i + 1] if i + 1 < len(flat) else None
            near = [x for x in (prev, nxt) if x is not None
                    and x[0] is C.LITERAL and chr(x[1]) == "="]
            after_semi = prev is not None and prev[0] is C.LITERAL and \
                chr(prev[1]) == ";"
            if near or after_semi:
                n_sites += 1
                if mn != 0:
                    badws.append("at least %d white space %s" % (
                        mn, "after ';'" if after_semi else "next to '='"))
    rep.check(n_sites >= 6 and not badws, "R17.1", U + "RE_META",
              "white space around '=' and behind the ';' of the content "
              "value is optional (%d places)" % n_sites,
              construct="meta-optional-space", detail="; ".join(badws))


def _meta_group_roles(repo, rep):
    """detect_encoding returns (content type, charset): the two components
    are put together from the capturing groups of RE_META that stand behind
    'content=' and behind 'charset=' respectively -- in both attribute
    orders (groups 1,2 and 3,4)."""
    from .. import rx
    C = rx.C
    rc = repo.const("chameleon.utils", "RE_META")
    tree = list(rx.parse(rc.pattern, rc.flags))
    roles = {}

    def walk(items, word):
        """word: the literal text seen since the last capturing group"""
        for op, av in items:
            if op is C.LITERAL:
                word[0] += chr(av).lower()
            elif op is C.SUBPATTERN:
                if av[0] is not None:
                    w = word[0]
                    k = max(w.rfind("charset"), w.rfind("content"))
                    roles[av[0]] = "charset" if k >= 0 and \
                        w[k:].startswith("charset") else (
                            "type" if k >= 0 else "?")
                    word[0] = ""
                walk(av[3], word)
            elif op in (C.MAX_REPEAT, C.MIN_REPEAT):
                walk(av[2], word)
            elif op is C.BRANCH:
                for alt in av[1]:
                    walk(alt, [word[0]])
    walk(tree, [""])
    f = repo.func(U + "detect_encoding")
    want_t = sorted(g - 1 for g, r in roles.items() if r == "type")
    want_c = sorted(g - 1 for g, r in roles.items() if r == "charset")
    if len(want_t) < 2 or len(want_c) < 2:
        rep.check(False, "R17.1", U + "RE_META", "the meta pattern captures "
                  "content type and charset in both attribute orders",
                  construct="meta-group-roles", detail=str(roles))
        return
    ok = False
    detail = "no return of a pair taken from match.groups()"
    for r in ast.walk(f.node):
        if isinstance(r, ast.Return) and isinstance(r.value, ast.Tuple) \
                and len(r.value.elts) == 2:
            comps = []
            for e in r.value.elts:
                idx = sorted(
                    n.slice.value for n in ast.walk(e)
                    if isinstance(n, ast.Subscript)
                    and isinstance(n.slice, ast.Constant)
                    and isinstance(n.slice.value, int)
                    and src(n.value) == "groups")
                # match.group(k) spelling
                idx += sorted(
                    n.args[0].value - 1 for n in ast.walk(e)
                    if isinstance(n, ast.Call) and isinstance(
                        n.func, ast.Attribute) and n.func.attr == "group"
                    and n.args and isinstance(n.args[0], ast.Constant)
                    and isinstance(n.args[0].value, int))
                comps.append(sorted(idx))
            if comps[0] or comps[1]:
                ok = comps[0] == want_t and comps[1] == want_c
                detail = "returns groups %s / %s; content type groups %s, " \
                         "charset groups %s" % (comps[0], comps[1], want_t,
                                                want_c)
    rep.check(ok, "R17.1", f.qualname, "the reported content type is taken "
              "from the groups behind 'content=', the charset from the "
              "groups behind 'charset=', whichever attribute order matched",
              construct="meta-group-roles", where=L.where(f), detail=detail)


def _meta_shape(repo, rep):
    """Obligations on the shape of RE_META, decided on its syntax tree (per
    alternative, groups flattened):
    * a white-space repeat admits every white-space character (a meta element
      may be wrapped over lines, or use tabs);
    * a quote around a value is optional and single;
    * at least one white-space character separates 'meta' from the first
      attribute and the two attributes from each other;
    * a captured value is not empty;
    * a lazy white-space repeat is not followed by something that can match
      white space itself (it would hand the blanks to the captured value)."""
    from .. import rx
    C = rx.C
    rc = repo.const("chameleon.utils", "RE_META")
    tree = list(rx.parse(rc.pattern, rc.flags))
    WS = rx.CharSet.of(" \t\n\r")
    QU = rx.CharSet.of("\"'")
    bad = []
    counts = dict(ws=0, quote=0, sep=0, value=0)

    def alts(items):
        out = [[]]
        for op, av in items:
            if op is C.BRANCH:
                new = []
                for a in out:
                    for b in av[1]:
                        for sub in alts(list(b)):
                            new.append(a + sub)
                out = new
            elif op is C.SUBPATTERN:
                new = []
                for a in out:
                    for sub in alts(list(av[3])):
                        new.append(a + [("GROUP-OPEN", av[0])] + sub +
                                   [("GROUP-CLOSE", av[0])])
                out = new
            else:
                out = [a + [(op, av)] for a in out]
        return out

    def rep_of(it):
        """(min, max, lazy, charset) of a repeat over one class / char"""
        op, av = it
        if op in (C.MAX_REPEAT, C.MIN_REPEAT):
            body = list(av[2])
            return av[0], av[1], op is C.MIN_REPEAT, rx.all_chars(body)
        return None

    def first_chars(items):
        cs = rx.CharSet()
        for it in items:
            if it[0] in ("GROUP-OPEN", "GROUP-CLOSE"):
                continue
            r = rep_of(it)
            if r is not None:
                cs = cs | r[3]
                if r[0] == 0:
                    continue
                return cs
            cs = cs | rx.all_chars([it])
            return cs
        return cs

    uses = [n for m_ in repo.modules.values() for n in ast.walk(m_.tree)
            if isinstance(n, ast.Attribute) and isinstance(n.value, ast.Name)
            and n.value.id == "RE_META"]
    searched_only = bool(uses) and all(n.attr == "search" for n in uses)
    for alt in alts(tree):
        consuming = [it for it in alt]
        word = ""
        for i, it in enumerate(consuming):
            if it[0] is C.LITERAL:
                word += chr(it[1]).lower()
                continue
            r = rep_of(it)
            prev_word, word = word, ""
            if it[0] in ("GROUP-OPEN", "GROUP-CLOSE"):
                word = prev_word
                continue
            if r is None:
                continue
            mn, mx, lazy, cs = r
            if " " in cs and not ("a" in cs):
                counts["ws"] += 1
                # (the pattern is only ever searched for and only its groups
                # are read: white space at its two ends is immaterial)
                edge = searched_only and (
                    not any(jt[0] not in ("GROUP-OPEN", "GROUP-CLOSE")
                            for jt in consuming[:i]) or
                    not any(jt[0] not in ("GROUP-OPEN", "GROUP-CLOSE")
                            for jt in consuming[i + 1:]))
                if not (WS <= cs) and not edge:
                    bad.append("a white-space repeat admits only %s" % (cs,))
                # separator: the next literal run is an attribute name, the
                # previous one is 'meta' or the end of an attribute value
                nxt = ""
                for jt in consuming[i + 1:]:
                    if jt[0] is C.LITERAL:
                        nxt += chr(jt[1]).lower()
                    elif jt[0] in ("GROUP-OPEN", "GROUP-CLOSE"):
                        continue
                    else:
                        break
                if nxt.startswith(("http-equiv", "content")) and \
                        not nxt.startswith("content-type"):
                    counts["sep"] += 1
                    if mn < 1:
                        bad.append("no white space required in front of "
                                   "the attribute '%s'" % nxt[:10])
                if lazy:
                    # what follows, up to the first item that must consume
                    # something: a captured value that admits white space
                    # would get the blanks the lazy repeat declines
                    depth = 0
                    for jt in consuming[:i + 1]:
                        if jt[0] == "GROUP-OPEN" and jt[1] is not None:
                            depth += 1
                        elif jt[0] == "GROUP-CLOSE" and jt[1] is not None:
                            depth -= 1
                    for jt in consuming[i + 1:]:
                        if jt[0] == "GROUP-OPEN":
                            depth += jt[1] is not None
                            continue
                        if jt[0] == "GROUP-CLOSE":
                            depth -= jt[1] is not None
                            continue
                        r2 = rep_of(jt)
                        cs2 = r2[3] if r2 is not None else \
                            rx.all_chars([jt])
                        if depth > 0 and (" " in cs2 or "\t" in cs2):
                            bad.append("a lazy white-space repeat stands in "
                                       "front of a captured value that "
                                       "admits white space")
                        if r2 is None or r2[0] > 0:
                            break
            elif cs == QU:
                counts["quote"] += 1
                if not (mn == 0 and mx == 1):
                    bad.append("a quote is required / repeated (%d..%s)"
                               % (mn, mx))
            else:
                # a value: inside a capturing group?
                depth = 0
                for jt in consuming[:i]:
                    if jt[0] == "GROUP-OPEN" and jt[1] is not None:
                        depth += 1
                    elif jt[0] == "GROUP-CLOSE" and jt[1] is not None:
                        depth -= 1
                if depth > 0:
                    counts["value"] += 1
                    if mn < 1:
                        bad.append("a captured value may be empty")
        # a quote class that is not under a repeat at all is mandatory
        for it in consuming:
            if it[0] is C.IN and rx.in_set(it[1]) == QU:
                counts["quote"] += 1
                bad.append("a quote is required")
    if not (counts["ws"] >= 12 and counts["quote"] >= 4 and
            counts["sep"] >= 2 and counts["value"] >= 2):
        raise AnalysisError("RE_META: the pattern's parts were not "
                            "recognised (%s)" % counts)
    rep.check(not bad, "R17.1",
              U + "RE_META", "shape of the meta pattern: total white-space "
              "classes (%(ws)d), optional quotes (%(quote)d), mandatory "
              "separators (%(sep)d), non-empty values (%(value)d)" % counts,
              construct="meta-shape", detail="; ".join(sorted(set(bad))))


def _reader_details(repo, rep):
    """read_bytes reports (document, encoding, content type); the content
    type of a BOM document comes from component 0 of what detect_encoding
    returns (content type, charset).  read_xml_encoding bounds the search by
    the position find() returned only when it found something (>= 0)."""
    rb = repo.func(U + "read_bytes")
    bad = []
    n = 0
    for r in ast.walk(rb.node):
        if isinstance(r, ast.Return) and isinstance(r.value, ast.Tuple) and \
                len(r.value.elts) == 3:
            third = r.value.elts[2]
            for x in ast.walk(third):
                if isinstance(x, ast.Subscript) and isinstance(
                        x.value, ast.Call) and \
                        src(x.value.func) == "detect_encoding":
                    n += 1
                    try:
                        idx = ast.literal_eval(x.slice)
                    except ValueError:
                        idx = None
                    if idx != 0 and idx != -2:
                        bad.append("content type taken from component %s of "
                                   "detect_encoding()" % src(x.slice))
    for a in ast.walk(rb.node):
        if isinstance(a, ast.Assign) and isinstance(
                a.targets[0], ast.Tuple) and isinstance(a.value, ast.Call) \
                and src(a.value.func) == "detect_encoding":
            n += 1
            names = [src(e) for e in a.targets[0].elts]
            rets = [r for r in ast.walk(rb.node) if isinstance(r, ast.Return)
                    and isinstance(r.value, ast.Tuple)
                    and len(r.value.elts) == 3 and r.lineno > a.lineno
                    and any(src(e) in names for e in r.value.elts[1:])]
            for r in rets:
                if len(names) != 2 or src(r.value.elts[2]) != names[0] or \
                        names[1] not in src(r.value.elts[0]) + \
                        src(r.value.elts[1]):
                    bad.append("(content type, charset) unpacked as %s, "
                               "returned as %s" % (names, src(r.value)[:60]))
    rep.check(n >= 2 and not bad, "R17.3", rb.qualname, "the content type "
              "read_bytes reports is the first component of detect_encoding's "
              "(content type, charset), the encoding the second",
              construct="detect-components", where=L.where(rb),
              detail="; ".join(bad))
    xe = repo.func(U + "read_xml_encoding")
    finds = {}
    for a in ast.walk(xe.node):
        if isinstance(a, ast.Assign) and isinstance(a.value, ast.Call) and \
                isinstance(a.value.func, ast.Attribute) and \
                a.value.func.attr == "find" and isinstance(
                    a.targets[0], ast.Name):
            finds[a.targets[0].id] = a
    okg = bool(finds)
    gdetail = ""
    for x in ast.walk(xe.node):
        if isinstance(x, (ast.IfExp, ast.If)):
            names = [n_.id for n_ in ast.walk(x.test)
                     if isinstance(n_, ast.Name) and n_.id in finds]
            for v in set(names):
                tv = [L.int_guard_truth(x.test, v, k) for k in (-1, 0, 1, 7)]
                if None in tv:
                    continue
                # the branch that uses the position is taken for k >= 0 only
                uses_in_body = any(isinstance(n_, ast.Name) and n_.id == v
                                   for n_ in ast.walk(
                                       x.body if isinstance(x, ast.IfExp)
                                       else ast.Module(x.body, [])))
                want = [False, True, True, True] if uses_in_body else \
                    [True, False, False, False]
                if tv != want:
                    okg = False
                    gdetail = "%s is %s for -1, 0, 1, 7" % (src(x.test), tv)
    rep.check(okg, "R17.1", xe.qualname, "the position find() returned "
              "bounds the search only when it is a position (-1 means: no "
              "'?>', search the whole text)", construct="find-miss-guard",
              where=L.where(xe), detail=gdetail)
