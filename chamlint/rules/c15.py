"""C15 -- the on-disk module cache is sound and crash-safe."""
from __future__ import annotations

import ast

from .. import lib as L
from .. import paths as P
from ..core import AnalysisError, NotConst, src

LD = "chameleon.loader."
BT = "chameleon.template.BaseTemplate."

# reads on the compile path that legitimately are not part of the key
EXEMPT = {
    "filename": "hashed by BaseTemplate.digest",
    "content_encoding": "derived from the body",
    "loader": "where the module is stored, not what it contains",
    "debug": "adds a header comment to the stored source only",
    "keep_source": "keeps a copy of the source on the instance only",
    "keep_body": "keeps a copy of the body on the instance only",
    "source": "output of compilation",
    "body": "output of cook",
    "macros": "run-time object bound as a builtin; its *name* is hashed",
    "extra_builtins": "names are hashed (the 'names' argument of digest); "
                      "values are passed at run time",
    "_loader": "run-time value of the __loader builtin",
    "_cooked": "compiled-state flag",
    "_v_last_read": "compiled-state bookkeeping",
    "package_name": "file location",
    "auto_reload": "reload policy",
    "default_encoding": "decoding of the body, which is hashed decoded",
    "default_content_type": "only read to compute content_type, which is "
                            "hashed",
    "__dict__": "instance dictionary (config plumbing)",
    "__class__": "class name is hashed",
}


def compile_reads(repo, cls_qual, entry="cook", skip=("digest", "cook_check",
                                                      "read", "mtime",
                                                      "render", "__call__")):
    """self.<attr> loads (non-method, non-property) reachable from
    ``entry`` through self-method calls and self-property reads, resolved on
    the MRO of ``cls_qual``."""
    ci = repo.cls(cls_qual)
    seen = set()
    todo = [entry]
    reads = {}
    while todo:
        name = todo.pop()
        if name in seen or name in skip:
            continue
        seen.add(name)
        f = repo.method(ci, name)
        if f is None:
            continue
        for n in ast.walk(f.node):
            if isinstance(n, ast.Attribute) and isinstance(n.value, ast.Name) \
                    and n.value.id == "self" and isinstance(n.ctx, ast.Load):
                a = n.attr
                m = repo.method(ci, a)
                if m is not None:
                    todo.append(a)
                else:
                    reads.setdefault(a, []).append((f, n.lineno))
            elif isinstance(n, ast.Call) and src(n.func) == "getattr" and \
                    n.args and src(n.args[0]) == "self" and len(n.args) > 1 \
                    and isinstance(n.args[1], ast.Constant):
                reads.setdefault(n.args[1].value, []).append((f, n.lineno))
    return reads, seen


def _value_reaches_update(loop):
    """inside ``for attr in (...)``: the value read with getattr(self, attr)
    (possibly through locals) is really part of what .update() receives --
    a format string must reference the argument that carries it"""
    import string
    vals = set()
    for n in ast.walk(loop):
        if isinstance(n, ast.Assign) and any(
                isinstance(c, ast.Call) and src(c.func) == "getattr"
                for c in ast.walk(n.value)):
            for t in n.targets:
                if isinstance(t, ast.Name):
                    vals.add(t.id)
    # locals derived from the value (v = sorted(v) ...)
    for _ in range(3):
        for n in ast.walk(loop):
            if isinstance(n, ast.Assign) and any(
                    isinstance(x, ast.Name) and x.id in vals
                    for x in ast.walk(n.value)):
                for t in n.targets:
                    if isinstance(t, ast.Name):
                        vals.add(t.id)

    def carries(e):
        return any((isinstance(x, ast.Name) and x.id in vals) or (
            isinstance(x, ast.Call) and src(x.func) == "getattr")
            for x in ast.walk(e))
    ok = False
    for c in ast.walk(loop):
        if not (isinstance(c, ast.Call) and src(c.func).endswith(".update")
                and c.args):
            continue
        e = c.args[0]
        if not carries(e):
            continue
        good = True
        for f in ast.walk(e):
            if isinstance(f, ast.Call) and isinstance(
                    f.func, ast.Attribute) and f.func.attr == "format" and \
                    isinstance(f.func.value, ast.Constant) and \
                    isinstance(f.func.value.value, str):
                used = set()
                auto = 0
                for lit, field, spec, conv in string.Formatter().parse(
                        f.func.value.value):
                    if field is None:
                        continue
                    head = field.split(".")[0].split("[")[0]
                    if head == "":
                        used.add(auto)
                        auto += 1
                    elif head.isdigit():
                        used.add(int(head))
                    else:
                        used.add(head)
                for i, a in enumerate(f.args):
                    if carries(a) and i not in used:
                        good = False
                for k in f.keywords:
                    if carries(k.value) and k.arg not in used:
                        good = False
            elif isinstance(f, ast.BinOp) and isinstance(f.op, ast.Mod) and \
                    isinstance(f.left, ast.Constant) and \
                    isinstance(f.left.value, str):
                import re as _re
                nspec = len([x for x in _re.findall(r"%(.)", f.left.value)
                             if x != "%"])
                args = f.right.elts if isinstance(f.right, ast.Tuple) \
                    else [f.right]
                for i, a in enumerate(args):
                    if carries(a) and i >= nspec:
                        good = False
        if good:
            ok = True
    return ok


def hashed_options(repo, cls_qual):
    ci = repo.cls(cls_qual)
    out = set()
    for k in repo.mro(ci):
        d = k.methods.get("digest")
        if d is None:
            continue
        for n in ast.walk(d.node):
            if isinstance(n, ast.For) and isinstance(n.iter, ast.Tuple) and \
                    all(isinstance(e, ast.Constant) for e in n.iter.elts):
                uses = any(isinstance(c, ast.Call) and src(c.func) == "getattr"
                           and src(c.args[0]) == "self" and
                           src(c.args[1]) == src(n.target)
                           for c in ast.walk(n))
                upd = any(isinstance(c, ast.Call) and
                          src(c.func).endswith(".update")
                          for c in ast.walk(n))
                if uses and upd and _value_reaches_update(n):
                    out.update(e.value for e in n.iter.elts)
            elif isinstance(n, ast.Attribute) and \
                    isinstance(n.value, ast.Name) and n.value.id == "self" \
                    and isinstance(n.ctx, ast.Load):
                out.add(n.attr)
    return out


def run(repo, rep, tier):
    rep.explanation = (
        "Soundness of the cache key is a def-use property: every "
        "configuration attribute (self.<option>) that is read on the compile "
        "path -- the functions reachable from BaseTemplate.cook through "
        "self-method calls and property reads, resolved on the MRO of the "
        "concrete template classes -- must be among the attributes that "
        "digest() feeds into the hash, or be exempt for a stated reason "
        "(derived from the hashed body, run-time only...).  Crash safety of "
        "the store is a path property of ModuleLoader.build: on every path "
        "the final name comes into existence only through os.rename/replace "
        "of a temporary file created in the same directory with a suffix "
        "that get() can never resolve, after it was closed; a failed write "
        "removes the temporary file; nothing else in the package writes into "
        "the cache directory; build and _load hold the process-wide lock in "
        "try/finally.")
    rep.assumptions = [
        "os.rename within one directory is atomic; py_compile writes byte "
        "code atomically (standard library)",
        "two processes never produce different sources for one key (follows "
        "from key coverage)",
    ]
    rep.rule("R15.1", "key coverage: options read on the compile path are "
                      "hashed by digest()")
    rep.rule("R15.2", "store protocol: temp file in the cache directory, "
                      "closed, then renamed; failure removes the temp file; "
                      "lock held in try/finally; single writer function")
    rep.rule("R15.3", "lookup by exact file name; in-process reuse keyed by "
                      "module name")
    _coverage(repo, rep)
    _store(repo, rep)
    _lookup(repo, rep)
    nt_, glued_ = L.glued_words(repo, ('chameleon.zpt.template', 'chameleon.template'))
    rep.check(nt_ >= 1 and not glued_, "R15.1", "chameleon.zpt.template", "every entry of "
              "the tuples of hashed option names is one string literal (no "
              "two names glued together by a missing comma)",
              construct="table-entry-glued", detail="; ".join(
                  "%s:%d %s" % (g[0].relpath, g[1], g[2])
                  for g in glued_[:3]) or "%d word tables" % nt_)
    bl = repo.func(LD + "ModuleLoader.build")
    writes = [c for c in ast.walk(bl.node) if isinstance(c, ast.Call)
              and src(c.func) == "temp.write" and c.args]
    wtxt = [src(L.inline_locals(bl.node, c.args[0])) for c in writes]
    rep.check(len(writes) == 2 and "coding" in wtxt[0] and
              "encode" in wtxt[1] and "source" in wtxt[1], "R15.2",
              bl.qualname, "a stored module starts with its own coding "
              "line, then the source (the first line of the source -- in "
              "debug mode a comment with the template's file name -- is "
              "never read as the encoding declaration)",
              construct="header-then-source", where=L.where(bl),
              detail=str(wtxt))
    gp = repo.func("chameleon.template.get_pkg_digest")
    ups = [src(c.args[0]) for c in ast.walk(gp.node)
           if isinstance(c, ast.Call) and isinstance(c.func, ast.Attribute)
           and c.func.attr == "update" and c.args]
    rep.check(any(u.startswith("name.") for u in ups) and any(
        u.startswith("version.") for u in ups), "R15.1", gp.qualname,
        "names and versions of the installed distributions both enter the "
        "key", construct="package-digest-complete", where=L.where(gp),
        detail=str(ups))
    versions_total(repo, rep)
    _objects_by_name(repo, rep)
    _wrong_variable(repo, rep)
    # what a debug template stores under the key differs from what a plain
    # one stores only by a comment: the file name in it is a literal (%r), so
    # no name -- a line break in it -- can turn the comment into code that
    # the next template of that key would run
    ck = repo.func("chameleon.template.BaseTemplate._cook")
    heads = [(t_, a_) for t_, a_, n_ in L.fmt_sites(ck.node)
             if t_.lstrip().startswith("#")]
    okh = bool(heads)
    for t_, a_ in heads:
        import re as _re
        specs = _re.findall(r"%[-#0 +]*\d*(?:\.\d+)?([a-zA-Z%])", t_)
        specs = [x for x in specs if x != "%"]
        first_line = t_.split("\n", 1)[0]
        n_first = len([x for x in _re.findall(r"%([a-zA-Z])", first_line)])
        if any(sp != "r" for sp in specs[:n_first]):
            okh = False
    rep.check(okh, "R15.2", ck.qualname, "the comment a debug template puts "
              "in front of the stored source quotes the file name as a "
              "literal", construct="debug-comment-literal",
              where=L.where(ck), detail="; ".join(t_[:40] for t_, a_ in heads))
    L.state_rule(repo, rep)


def _wrong_variable(repo, rep, rule="R15.1"):
    """value-level facts of the key and store functions that a 'wrong
    variable' slip breaks while every line still runs"""
    bd = repo.func("chameleon.template.BaseTemplate.digest")
    rets = [r_ for r_ in ast.walk(bd.node) if isinstance(r_, ast.Return)]
    hexes = {src(a.targets[0]) for a in ast.walk(bd.node)
             if isinstance(a, ast.Assign) and "hexdigest()" in src(a.value)}
    rep.check(bool(rets) and bool(hexes) and all(
        isinstance(r_.value, ast.Name) and r_.value.id in hexes
        for r_ in rets), rule, bd.qualname, "the base key that is returned "
        "is the digest (with or without the path prefix), never one of its "
        "inputs", construct="base:returns-digest", where=L.where(bd))
    sn = repo.func("chameleon.zpt.template._stable_name")
    prm = sn.node.args.args[0].arg
    fb = [r_ for r_ in ast.walk(sn.node) if isinstance(r_, ast.Return)
          and r_.value is not None and "id(" in src(r_.value)]
    rep.check(bool(fb) and all(
        "id(%s)" % prm in src(r_.value) and
        {x.id for x in ast.walk(r_.value) if isinstance(x, ast.Name)} <=
        {prm, "repr", "id", "format", "hex"}
        for r_ in fb), rule, sn.qualname, "the fallback name is made of the "
        "value's own representation and identity",
        construct="stable-name-fallback-of-value", where=L.where(sn))
    pd = repo.func("chameleon.zpt.template.PageTemplate.digest")
    okn = True
    nloops = 0
    for lp in ast.walk(pd.node):
        if isinstance(lp, ast.For) and isinstance(lp.iter, (ast.Tuple,
                                                            ast.List)):
            var = src(lp.target)
            for t_, args_, n_ in L.fmt_sites(lp):
                if t_.startswith(";%s="):
                    nloops += 1
                    if not args_ or src(args_[0]) != var:
                        okn = False
    rep.check(okn and nloops >= 3, rule, pd.qualname, "every option value "
              "enters the key under its own name (';<name>=<value>')",
              construct="option-named-in-key", where=L.where(pd))
    ml = repo.func("chameleon.template._make_module_loader")
    calls_ = [c for c in ast.walk(ml.node) if isinstance(c, ast.Call)
              and src(c.func) == "ModuleLoader"]
    rep.check(bool(calls_) and all(
        len(c.args) == 2 and src(c.args[0]) == "path" and
        src(c.args[1]) == "remove" for c in calls_), "R15.3", ml.qualname,
        "the loader is told the directory and whether the directory is its "
        "own to remove (a configured cache directory never is)",
        construct="loader-remove-flag-passed", where=L.where(ml))
    ck = repo.func("chameleon.template.BaseTemplate._cook")
    gets = [c for c in ast.walk(ck.node) if isinstance(c, ast.Call)
            and isinstance(c.func, ast.Attribute) and c.func.attr == "get"
            and c.args and isinstance(c.args[0], ast.Constant)
            and c.args[0].value == "__name__"]
    rep.check(bool(gets) and all(src(c.func.value) == "cooked"
                                 for c in gets), "R15.2", ck.qualname,
              "the name of a stored module is read from the module's own "
              "dictionary", construct="cooked-name-from-cooked",
              where=L.where(ck))


def _objects_by_name(repo, rep, rule="R15.1"):
    """option values that are objects (the default marker, the tokenizer,
    the expression-type factories) enter the key by _stable_name(), never by
    their repr (an address, or a text two different objects share); the
    table of expression types is formatted from a sorted list, not from a
    generator or a dict view (whose text is an address / an order)"""
    d = repo.func("chameleon.zpt.template.PageTemplate.digest")
    wh = L.where(d)
    objs = ("default_marker", "tokenizer")
    loops = [lp for lp in ast.walk(d.node) if isinstance(lp, ast.For)
             and isinstance(lp.iter, (ast.Tuple, ast.List))
             and {e.value for e in lp.iter.elts
                  if isinstance(e, ast.Constant)} & set(objs)]
    okl = bool(loops)
    for lp in loops:
        var = src(lp.target)
        ups = [c for c in ast.walk(lp) if isinstance(c, ast.Call)
               and isinstance(c.func, ast.Attribute)
               and c.func.attr == "update"]
        for u in ups:
            t_ = src(L.inline_locals(lp, u.args[0])) if u.args else ""
            if "_stable_name(getattr(self, %s))" % var not in t_:
                okl = False
    rep.check(okl, rule, d.qualname, "the default marker and the tokenizer "
              "enter the key by their stable names",
              construct="objects-by-stable-name", where=wh)
    tys = [a for a in ast.walk(d.node) if isinstance(a, ast.Assign)
           and "expression_types" in src(a.value)]
    okt = bool(tys)
    for a in tys:
        v = a.value
        if not (isinstance(v, ast.Call) and src(v.func) == "sorted" and
                v.args):
            okt = False
            continue
        inner = v.args[0]
        elt = inner.elt if isinstance(inner, (ast.GeneratorExp,
                                              ast.ListComp)) else None
        if not (isinstance(elt, ast.Tuple) and len(elt.elts) == 2 and
                isinstance(elt.elts[1], ast.Call) and
                src(elt.elts[1].func) == "_stable_name"):
            okt = False
    rep.check(okt, rule, d.qualname, "the expression types enter the key "
              "as a sorted list of (prefix, stable name of the factory)",
              construct="types-sorted-by-name", where=wh,
              detail="; ".join(src(a.value)[:80] for a in tys))


def versions_total(repo, rep, rule="R15.1"):
    """a distribution without version metadata has version None: the table
    the key is computed from holds a string for it (None cannot be encoded:
    no template could be constructed in such an environment)"""
    sv = repo.func("chameleon.template.safe_get_package_version")
    optional = any(isinstance(r_, ast.Return) and (
        r_.value is None or src(r_.value) == "None")
        for r_ in ast.walk(sv.node))
    # (... and a distribution that has one is reported with it: the normal
    # exit of the helper is the looked-up version)
    vr = [r_ for r_ in ast.walk(sv.node) if isinstance(r_, ast.Return)
          and isinstance(r_.value, ast.Call)
          and src(r_.value.func).endswith(".version")
          and r_.value.args and src(r_.value.args[0]) ==
          sv.node.args.args[0].arg]
    rep.check(bool(vr), rule, sv.qualname, "the version of an installed "
              "distribution is what the helper returns (it enters the key: "
              "a module stored by another release is not reused)",
              construct="version-looked-up", where=L.where(sv))
    gv = repo.func("chameleon.template.get_package_versions")
    uses = [c for c in ast.walk(gv.node) if isinstance(c, ast.Call)
            and src(c.func) == "safe_get_package_version"]
    ok = bool(uses)
    for c in uses:
        par = getattr(c, "_parent", None)
        guarded = isinstance(par, ast.BoolOp) and isinstance(par.op, ast.Or) \
            and par.values[0] is c and isinstance(
                par.values[-1], ast.Constant) and isinstance(
                    par.values[-1].value, str)
        if optional and not guarded:
            ok = False
    rep.check(ok, rule, gv.qualname, "a distribution without a version "
              "enters the table as a string (never None)",
              construct="version-none-guarded", where=L.where(gv))


def _coverage(repo, rep):
    for cq in ("chameleon.zpt.template.PageTemplate",
               "chameleon.zpt.template.PageTemplateFile"):
        reads, funcs = compile_reads(repo, cq)
        hashed = hashed_options(repo, cq)
        rep.count("compile_path_functions", len(funcs))
        rep.count("option_reads", len(reads))
        n = 0
        for opt in sorted(reads):
            if opt in EXEMPT:
                continue
            n += 1
            f, line = reads[opt][0]
            rep.check(opt in hashed, "R15.1", cq + ".digest",
                      "option '%s' (read by %s, line %d, while compiling) is "
                      "part of the cache key" % (opt, f.qualname, line),
                      construct="unhashed:" + opt,
                      where=L.where(f, line),
                      detail="hashed: %s" % sorted(hashed))
        rep.check(n >= 10, "R15.1", cq, "compile-path option reads were "
                  "found", construct="reads-found", detail=str(sorted(reads)))
    # the hashed representation must not conflate values the compile path
    # distinguishes (None vs empty collection, False vs None ...)
    pdig = repo.func("chameleon.zpt.template.PageTemplate.digest")
    lossy = []
    for n in ast.walk(pdig.node):
        if isinstance(n, ast.BoolOp):
            for v in n.values:
                if isinstance(v, ast.Call) and src(v.func) == "getattr" and \
                        src(v.args[0]) == "self":
                    lossy.append((n.lineno, src(n)))
                if isinstance(v, ast.Name) and v.id == "v":
                    lossy.append((n.lineno, src(n)))
        if isinstance(n, ast.Call) and src(n.func) in ("bool", "len") and \
                n.args and ("getattr(self" in src(n.args[0]) or
                            src(n.args[0]) == "v"):
            lossy.append((n.lineno, src(n)))
    # everything a digest function takes the trouble to read is used: a
    # value bound in it (an option read into a local, the value half of an
    # items() pair) that is never read again has dropped out of the key
    for df in (pdig, repo.func(BT + "digest")):
        bound = {}
        for n in ast.walk(df.node):
            tg = []
            if isinstance(n, ast.Assign):
                tg = n.targets
            elif isinstance(n, (ast.For, ast.comprehension)):
                tg = [n.target]
            for t in tg:
                for x in ast.walk(t):
                    if isinstance(x, ast.Name) and isinstance(
                            x.ctx, ast.Store):
                        bound.setdefault(x.id, x.lineno)
        loads = {x.id for x in ast.walk(df.node) if isinstance(x, ast.Name)
                 and isinstance(x.ctx, ast.Load)}
        dead = sorted(k for k in bound if k not in loads and k != "_")
        rep.check(not dead, "R15.1", df.qualname, "every value the digest "
                  "binds (options read into locals, both halves of an "
                  "items() pair) is used: %d bindings" % len(bound),
                  construct="digest-binding-unused", where=L.where(
                      df, bound[dead[0]]) if dead else L.where(df),
                  detail="never read: %s" % dead)
    rep.check(not lossy, "R15.1", pdig.qualname,
              "option values are hashed without a lossy coercion (None, "
              "False and an empty collection stay distinct -- the compile "
              "path distinguishes them, e.g. boolean_attributes is None "
              "selects the HTML defaults)", construct="lossy-hash",
              where=L.where(pdig), detail=str(lossy))
    pparse = repo.func("chameleon.zpt.template.PageTemplate.parse")
    tt = L.text(pparse.node)
    if "boolean_attributes is None" in tt:
        # collections are sorted only under 'is not None'
        ok = False
        for n in ast.walk(pdig.node):
            if isinstance(n, ast.If) and src(n.test) == "v is not None" and \
                    any(src(x) == "v = sorted(v)" for x in n.body):
                ok = True
        rep.check(ok, "R15.1", pdig.qualname,
                  "collection options are normalised (sorted) only when set: "
                  "None keeps its own key", construct="none-distinct",
                  where=L.where(pdig))
    # the key also covers body, class, filename, builtin names, versions
    d = repo.func(BT + "digest")
    t = L.text(d.node)
    for need, what in (("get_pkg_digest()", "the installed package "
                        "versions"),):
        rep.check(need in t, "R15.1", d.qualname, "the key covers %s" % what,
                  construct="base:" + what, where=L.where(d))
    # what goes into the hash, in order: an injective encoding of (class,
    # file name, body) -- every field but the last has a terminator that
    # cannot occur in it, the body (arbitrary text) comes last, and the text
    # encoding loses nothing
    ups = [n for st in d.node.body for n in ast.walk(st)
           if isinstance(n, ast.Call) and isinstance(n.func, ast.Attribute)
           and n.func.attr == "update" and n.args]
    ups.sort(key=lambda n: (n.lineno, n.col_offset))
    fields = []
    cls_attrs = []
    cls_ident = False
    for u in ups:
        e = L.inline_locals(d.node, u.args[0])
        t_ = src(e).replace(" ", "")
        for _ in range(3):      # locals of locals (cls = type(self))
            e = L.inline_locals(d.node, e)
        t_ = src(e).replace(" ", "")
        # (everything the value can be made of: all definitions of the
        # locals in it, transitively)
        reach, seen_, todo_ = [e], set(), [e]
        while todo_:
            x_ = todo_.pop()
            for nm in ast.walk(x_):
                if isinstance(nm, ast.Name) and nm.id not in seen_:
                    seen_.add(nm.id)
                    for a_ in ast.walk(d.node):
                        if isinstance(a_, ast.Assign) and any(
                                isinstance(tg, ast.Name) and tg.id == nm.id
                                for tg in a_.targets):
                            reach.append(a_.value)
                            todo_.append(a_.value)
        rt_ = " ".join(src(x_) for x_ in reach).replace(" ", "")
        kind = "body" if "body" in t_ else \
            "class" if ("type(self)" in rt_ or "self.__class__" in rt_) and (
                "__name__" in rt_ or "__qualname__" in rt_) else \
            "filename" if "filename" in t_ else "other"
        if kind == "class":
            cls_attrs = sorted({n.attr for x_ in reach for n in ast.walk(x_)
                                if isinstance(n, ast.Attribute)
                                and n.attr in ("__name__", "__qualname__",
                                               "__module__")})
            cls_ident = any(
                isinstance(c_, ast.Call) and src(c_.func) == "id" and
                c_.args and src(L.inline_locals(d.node, c_.args[0])) in (
                    "type(self)", "self.__class__")
                for x_ in reach for c_ in ast.walk(x_))
        term = isinstance(e, ast.BinOp) and isinstance(e.op, ast.Add) and \
            isinstance(e.right, ast.Constant) and e.right.value in (
                b"\n", b"\0", b";")
        lossy = any(isinstance(c, ast.Call) and isinstance(
            c.func, ast.Attribute) and c.func.attr == "encode" and any(
                isinstance(a, ast.Constant) and a.value in (
                    "ignore", "replace") for a in c.args)
            for c in ast.walk(e))
        fields.append((kind, term, lossy, src(u)[:70]))
    kinds = [k for k, _, _, _ in fields]
    rep.check("body" in kinds and "class" in kinds, "R15.1", d.qualname,
              "the key covers the template source and the template class",
              construct="base:source-and-class", where=L.where(d),
              detail=str(fields))
    if "class" in kinds:
        rep.check("__module__" in cls_attrs and "__qualname__" in cls_attrs,
                  "R15.1", d.qualname, "the template class is named by its "
                  "module and qualified name (two classes called "
                  "'PageTemplate' in two packages, one overriding parse(), "
                  "must not share stored modules)",
                  construct="base:class-qualified", where=L.where(d),
                  detail=str(cls_attrs))
        # ... and a class made inside a function ('<locals>' in its
        # qualified name) shares that name with its siblings: the key
        # carries its identity as well
        rep.check(cls_ident, "R15.1", d.qualname, "a template class made "
                  "inside a function is told from its siblings by its "
                  "identity", construct="base:class-local-identity",
                  where=L.where(d))
    bodies = [u for u in ups if "body" in src(u)]
    okb = bool(bodies)
    for u in bodies:
        e = L.inline_locals(d.node, u.args[0])
        # body.encode(...) on the parameter itself: nothing stripped, folded
        # or cut before hashing
        if not (isinstance(e, ast.Call) and isinstance(e.func, ast.Attribute)
                and e.func.attr == "encode" and isinstance(
                    e.func.value, ast.Name) and e.func.value.id == "body"):
            okb = False
    rep.check(okb, "R15.1", d.qualname, "the source is hashed as it is "
              "(two sources that differ in white space are two sources)",
              construct="base:body-verbatim", where=L.where(d),
              detail=str([src(u) for u in bodies]))
    rep.check("filename" in kinds, "R15.1", d.qualname, "the complete file "
              "name (with its extension) is hashed: the module's __filename "
              "is that of the template it is used for",
              construct="base:filename-hashed", where=L.where(d),
              detail=str(kinds))
    okord = bool(fields) and fields[-1][0] == "body" and all(
        term for k, term, _, _ in fields[:-1])
    rep.check(okord, "R15.1", d.qualname, "the hashed byte sequence is "
              "unambiguous: every field before the body ends with a "
              "terminator and the body comes last (class 'Template' + body "
              "'X'+'Page' must not equal class 'PageTemplate' + body 'X')",
              construct="base:unambiguous", where=L.where(d),
              detail=str(fields))
    # ... a terminator ends a field only if the field cannot contain it:
    # the file name is arbitrary text and goes in as a literal (repr) or
    # with its length
    fn_ups = [u for u in ups if "filename" in src(
        L.inline_locals(d.node, u.args[0])) and "body" not in src(u)]
    rep.check(bool(fn_ups) and all(any(
        isinstance(c_, ast.Call) and src(c_.func) in ("repr", "len")
        for c_ in ast.walk(L.inline_locals(d.node, u.args[0])))
        for u in fn_ups), "R15.1", d.qualname, "the file-name field of the "
        "key is self-delimiting (a line break in the name does not end it: "
        "name 'a\\nq' + body B is not name 'a' + body 'q\\n' + B)",
        construct="base:filename-delimited", where=L.where(d),
        detail="; ".join(src(u)[:70] for u in fn_ups))
    rep.check(not any(lossy for _, _, lossy, _ in fields), "R15.1",
              d.qualname, "text is encoded for hashing without dropping or "
              "replacing characters", construct="base:lossless-encoding",
              where=L.where(d), detail=str(fields))
    # a configuration callable has a process-independent name only if it is
    # a module-level object: closures and lambdas of one factory share their
    # qualified name
    sn = repo.func("chameleon.zpt.template._stable_name")
    tsn = L.text(sn.node)
    guards = [src(n.test) for n in ast.walk(sn.node) if isinstance(n, ast.If)]
    # the stable name is returned under a CONJUNCTION of: it has a module
    # and a name, no '<' in the name, no closure, and no owner other than a
    # class or module (each conjunct in this polarity)
    okc = False
    for n in ast.walk(sn.node):
        if not isinstance(n, ast.If):
            continue
        rets = [r for r in ast.walk(ast.Module(n.body, [])) if isinstance(
            r, ast.Return)]
        if not any(t_ == "%s.%s" for r in rets if r.value is not None
                   for t_, a_, n_ in L.fmt_sites(r.value)):
            continue

        def conj(e):
            if isinstance(e, ast.BoolOp) and isinstance(e.op, ast.And):
                out = []
                for v in e.values:
                    out += conj(v)
                return out
            return [e]
        cs = [src(L.inline_locals(sn.node, c)).replace(" ", "")
              for c in conj(n.test)]
        need = [
            lambda t: t.startswith("getattr(value,'__module__'"),
            lambda t: "__qualname__" in t and "__name__" in t
            and not t.startswith("'<'"),
            lambda t: t.startswith("'<'notin"),
            lambda t: t == "getattr(value,'__closure__',None)isNone",
            lambda t: t in (
                "getattr(value,'__self__',None)isNoneor"
                "isinstance(getattr(value,'__self__',None),"
                "(type,ModuleType))",),
        ]
        okc = len(cs) == len(need) and all(
            any(f_(c) for c in cs) for f_ in need)
        guards = cs
    rep.check(okc, "R15.1", sn.qualname, "module.qualname is used as a "
              "value's name only for module-level objects (no '<locals>' / "
              "'<lambda>' in the qualified name, no closure); anything else "
              "falls back to a representation that cannot give a wrong hit",
              construct="stable-name-module-level", where=L.where(sn),
              detail=str(guards))
    # the name is the QUALIFIED one: two classes' nested factories
    # (Shout.Expr / Whisper.Expr) share __name__ and module
    class _F:
        def __init__(self, args):
            self.args = args
    fmts = [_F(a_) for t_, a_, n_ in L.fmt_sites(sn.node)
            if len(a_) == 2 and t_ == "%s.%s"]
    okq = bool(fmts)
    qdetail = ""
    for fm in fmts:
        e = fm.args[1]
        if isinstance(e, ast.Name):
            defs_ = [a.value for a in ast.walk(sn.node)
                     if isinstance(a, ast.Assign)
                     and src(a.targets[0]) == e.id]
            e = defs_[-1] if defs_ else e
        first = e.values[0] if isinstance(e, ast.BoolOp) and isinstance(
            e.op, ast.Or) else e
        qdetail = src(e)[:120]
        if not (isinstance(first, ast.Call) and src(first.func) == "getattr"
                and len(first.args) >= 2
                and isinstance(first.args[1], ast.Constant)
                and first.args[1].value == "__qualname__"):
            okq = False
    rep.check(okq, "R15.1", sn.qualname, "the name half of module.name is "
              "the object's qualified name (its plain __name__ only where "
              "it has none)", construct="stable-name-qualified",
              where=L.where(sn), detail=qdetail)
    # what has no stable name must still get a name that no OTHER object can
    # have while entries made under it exist: the default repr() carries the
    # memory address, which the next closure allocated there inherits
    rets_ = [n for n in ast.walk(sn.node) if isinstance(n, ast.Return)
             and n.value is not None]
    # (the fallback returns: those that are not the 'module.name' format)
    fallbacks = [n for n in rets_ if not any(
        t_.count("%s") == 2 and "." in t_
        for t_, a_, n_ in L.fmt_sites(n.value))]
    addr = [n for n in fallbacks if any(
        isinstance(c_, ast.Call) and src(c_.func) == "id"
        for c_ in ast.walk(n.value)) or (
        any(isinstance(c_, ast.Call) and src(c_.func) == "repr"
            for c_ in ast.walk(n.value)) and not any(
            isinstance(t_, ast.expr) and "valueisNone" in src(t_).replace(
                " ", "") for t_, v_ in L.guards_of(n, sn.node)))]
    rep.check(bool(fallbacks) and not addr, "R15.1", sn.qualname, "the "
              "fallback name of a value without a stable name is not built "
              "on its memory address (repr() / id(): reused by a later "
              "object)", construct="stable-name-fallback-unique",
              where=L.where(sn, addr[0].lineno) if addr else L.where(sn))
    # ... but two such values that are alive together never share a name:
    # the identity of the object is part of it (the repr of a class made by
    # a factory function carries no address and is that of its siblings)
    ident = [n for n in fallbacks if any(
        isinstance(c_, ast.Call) and src(c_.func) == "id" and c_.args
        for c_ in ast.walk(n.value))]
    # (plain constants -- None, str, bytes, numbers -- are their own name:
    # a return of repr(value) guarded by exactly that test needs no identity,
    # and must not have one: the address of None differs between processes,
    # the default configuration would never hit a stored module)
    CONST_TYPES = {"str", "bytes", "int", "float", "bool"}
    consts = []
    for n in fallbacks:
        if n in ident:
            continue
        gs = [t_ for t_, v_ in L.guards_of(n, sn.node)
              if isinstance(t_, ast.expr) and v_]
        okc_ = False
        for t_ in gs:
            parts = t_.values if isinstance(t_, ast.BoolOp) and isinstance(
                t_.op, ast.Or) else [t_]
            okp = True
            for p_ in parts:
                tp = src(p_).replace(" ", "")
                if tp == "valueisNone":
                    continue
                if isinstance(p_, ast.Call) and src(p_.func) == \
                        "isinstance" and src(p_.args[0]) == "value":
                    names_ = {src(e) for e in (
                        p_.args[1].elts if isinstance(
                            p_.args[1], ast.Tuple) else [p_.args[1]])}
                    if names_ <= CONST_TYPES:
                        continue
                okp = False
            okc_ = okc_ or okp
        if okc_:
            consts.append(n)
    rep.check(len(consts) >= 1 and any(
        "valueisNone" in src(t_).replace(" ", "")
        for n in consts for t_, v_ in L.guards_of(n, sn.node)
        if isinstance(t_, ast.expr)), "R15.1", sn.qualname, "None and the "
        "other plain constants are named by their repr alone: the key of a "
        "default configuration is the same in every process",
        construct="stable-name-constants", where=L.where(sn))
    fallbacks = [n for n in fallbacks if n not in consts]
    rep.check(bool(fallbacks) and len(ident) == len(fallbacks), "R15.1",
              sn.qualname, "the fallback name of a value without a stable "
              "name carries the object's identity (two classes made by one "
              "factory function have one repr)",
              construct="stable-name-fallback-identity", where=L.where(
                  sn, fallbacks[0].lineno) if fallbacks else L.where(sn),
              detail="; ".join(src(n.value)[:60] for n in fallbacks))
    # ... nor does a method bound to an instance: the bound method forwards
    # the function's __qualname__, the instance that configures it is not in
    # the name (two expression-type factories obj_a.make / obj_b.make)
    named = [n for n in ast.walk(sn.node) if isinstance(n, ast.Return)
             and n.value is not None and "'{}.{}'" in src(n.value)
             or isinstance(n, ast.Return) and n.value is not None
             and "%s.%s" in src(n.value)]
    oks = bool(named)
    for r_ in named:
        gs = []
        for t_, v_ in L.guards_of(r_, sn.node):
            if isinstance(t_, ast.ExceptHandler):
                continue
            gs.append(src(L.inline_locals(sn.node, t_)))
        # early exits in front of the return count as guards too
        for st in sn.node.body:
            if isinstance(st, ast.If) and st.lineno < r_.lineno and any(
                    isinstance(x, ast.Return) for x in ast.walk(st)):
                gs.append(src(L.inline_locals(sn.node, st.test)))
        if not any("__self__" in g for g in gs):
            oks = False
    rep.check(oks, "R15.1", sn.qualname, "module.qualname is not used for a "
              "method bound to an instance (__self__): two instances' "
              "methods differ in state the name does not show",
              construct="stable-name-unbound", where=L.where(sn),
              detail=str(guards))
    # ... and it is the name of the value itself: the only unwrapping in
    # front of the naming is that of a Symbol (its .value); naming a part of
    # the value instead (a partial by its .func, a bound method by its
    # __func__) drops what tells two values apart
    prm_ = sn.node.args.args[0].arg
    rebinds = [n for n in ast.walk(sn.node)
               if isinstance(n, (ast.Assign, ast.AugAssign, ast.AnnAssign,
                                 ast.NamedExpr))
               and any(isinstance(t, ast.Name) and t.id == prm_
                       for t in ([n.target] if not isinstance(n, ast.Assign)
                                 else n.targets))]

    def _symbol_unwrap(n):
        v = n.value
        return isinstance(n, ast.Assign) and isinstance(v, ast.Call) and \
            src(v.func) == "getattr" and len(v.args) == 3 and \
            src(v.args[0]) == prm_ and src(v.args[2]) == prm_ and \
            isinstance(v.args[1], ast.Constant) and v.args[1].value == "value"
    bad_rb = [n for n in rebinds if not _symbol_unwrap(n)]
    rep.check(not bad_rb, "R15.1", sn.qualname, "the value is named as a "
              "whole: nothing but a Symbol is unwrapped before it is named "
              "(%d re-binding(s) of %r)" % (len(rebinds), prm_),
              construct="stable-name-whole-value", where=L.where(
                  sn, bad_rb[0].lineno if bad_rb else None),
              detail="; ".join(src(n)[:60] for n in bad_rb))
    # ... the *whole* file name: it is baked into the module (__filename,
    # reported in every error frame), so two files may share a module only
    # if they are the same file
    okp, shown = full_path_in_key(repo)
    rep.check(okp, "R15.1",
        d.qualname, "the key carries the template's complete path (only "
        "the extension is cut off)", construct="base:full-path",
        where=L.where(d), detail=str(shown)[:200])
    pd = repo.func("chameleon.zpt.template.PageTemplate.digest")
    t = L.text(pd.node)
    rep.check("super().digest(body, names)" in t and
              "';'.join(names)" in t, "R15.1", pd.qualname,
              "the key covers the base key and the builtin names",
              construct="names", where=L.where(pd))
    ck = repo.func(BT + "cook")
    t = L.text(ck.node)
    rep.check("digest = self.digest(body, names)" in t and
              "self._cook(body, digest, names)" in t and
              "sorted(builtins_dict.items())" in t, "R15.1", ck.qualname,
              "the module is stored under the digest of exactly what is "
              "compiled (same body, same sorted builtin names)",
              construct="cook-key", where=L.where(ck))


def full_path_in_key(repo):
    """the key depends on the template's complete path: either the readable
    prefix is the path without extension, or the path is among the hashed
    fields (then the prefix is cosmetic)"""
    d = repo.func(BT + "digest")
    for st in d.node.body:
        for n in ast.walk(st):
            if isinstance(n, ast.Call) and isinstance(
                    n.func, ast.Attribute) and n.func.attr == "update" \
                    and n.args:
                e = L.inline_locals(d.node, n.args[0])
                t_ = src(e).replace(" ", "")
                if "str(self.filename)" in t_ and "basename" not in t_ and \
                        "splitext" not in t_:
                    return True, ["hashed: " + src(e)[:80]]
    contrib = [n.value for n in ast.walk(d.node) if isinstance(n, ast.Assign)
               and src(n.targets[0]) == "digest"
               and "filename" in src(L.inline_locals(d.node, n.value))]
    shown = [src(L.inline_locals(d.node, c)) for c in contrib]
    return any(x.replace(" ", "").startswith(
        "os.path.splitext(str(self.filename))[0]+") for x in shown), shown


def _environment(repo, rep):
    # the cache directory named by the environment is fixed when the package
    # is imported: a relative name is made absolute there (a later chdir must
    # not move the cache)
    cfg = repo.module("chameleon.config")
    vals = []
    for n in ast.walk(cfg.tree):
        if isinstance(n, (ast.Assign, ast.AnnAssign)):
            tg = n.targets[0] if isinstance(n, ast.Assign) else n.target
            if src(tg) == "CACHE_DIRECTORY" and n.value is not None:
                vals.append(src(n.value))
    ok = bool(vals) and all(v == "None" or v.startswith("os.path.abspath(")
                            or v.startswith("os.path.realpath(")
                            for v in vals)
    rep.check(ok, "R15.3", "chameleon.config.CACHE_DIRECTORY", "the cache "
              "directory is an absolute path from import time on",
              construct="cache-dir-absolute", detail=str(vals))
    # ... and naming a cache directory is what switches the stored modules
    # on: the templates' loader is the file-based one whenever the directory
    # is set (debug mode or not), and that loader is rooted at the directory
    bt = repo.cls("chameleon.template.BaseTemplate")
    # (the model writes 'if c: x = A else: x = B' as x = A if c else B)
    sel = [a.value for a in bt.node.body if isinstance(a, ast.Assign)
           and src(a.targets[0]) == "loader"
           and isinstance(a.value, ast.IfExp)]
    oks = len(sel) == 1
    if oks:
        pt, flip = L._CanonIf._pos(sel[0].test)
        names = {src(v) for v in (pt.values if isinstance(pt, ast.BoolOp)
                                  and isinstance(pt.op, ast.Or) else [pt])}
        on = sel[0].orelse if flip else sel[0].body
        oks = "CACHE_DIRECTORY" in names and \
            src(on) == "_make_module_loader()"
    ml = repo.func("chameleon.template._make_module_loader")
    uses = False
    for pth in P.enum_paths(ml.node.body):
        conds = {src(e[1]): e[2] for e in pth if e[0] == "cond"}
        if conds.get("CACHE_DIRECTORY") is True:
            uses = any(e[0] == "assign" and e[1] == "path" and
                       src(e[2]) == "CACHE_DIRECTORY" for e in pth)
    rep.check(oks and uses, "R15.3", bt.qualname + ".loader", "with a cache "
              "directory configured the templates use the file-based "
              "loader, rooted at that directory (stored modules are there "
              "for a later process)", construct="cache-dir-selects-loader",
              where=L.where(ml))
    # the package digest is a module-level hash object: every key starts
    # from a *copy* of it (a key must not depend on the keys computed
    # earlier in the process)
    g = repo.func("chameleon.template.get_pkg_digest")
    rets = [n for n in ast.walk(g.node) if isinstance(n, ast.Return)
            and n.value is not None]
    okc = bool(rets) and all(
        isinstance(r_.value, ast.Call) and isinstance(
            r_.value.func, ast.Attribute) and r_.value.func.attr == "copy"
        for r_ in rets)
    rep.check(okc, "R15.1", g.qualname, "get_pkg_digest hands out a copy of "
              "the shared hash object", construct="pkg-digest-copy",
              where=L.where(g), detail=str([src(r_) for r_ in rets]))


def _store(repo, rep):
    _environment(repo, rep)
    f = repo.func(LD + "ModuleLoader.build")
    site = f.qualname
    wh = L.where(f)
    body = f.node.body
    ok = len(body) >= 2 and src(body[0]) == "acquire_lock()" and \
        isinstance(body[1], ast.Try) and body[1].finalbody and \
        src(body[1].finalbody[0]) == "release_lock()"
    rep.check(ok, "R15.2", site, "the whole store runs between acquire_lock "
              "and release_lock in try/finally", construct="lock",
              where=wh)
    paths = P.enum_paths(f.node.body)
    rep.count("paths", len(paths))
    temp = None
    for n in ast.walk(f.node):
        if isinstance(n, ast.Call) and src(n.func) == "tempfile.mkstemp":
            kw = {k.arg: src(k.value) for k in n.keywords}
            temp = kw
    rep.check(temp is not None and temp.get("dir") == "self.path", "R15.2",
              site, "the temporary file is created in the cache directory "
              "itself (rename stays on one file system)",
              construct="temp-dir", where=wh, detail=str(temp))
    suffix = (temp or {}).get("suffix", "")
    rep.check(suffix not in ("", "'.py'") and suffix.startswith("'."),
              "R15.2", site, "the temporary file has a suffix that the "
              "lookup ('<name>.py') can never resolve", construct="temp-suffix",
              where=wh, detail=suffix)
    n_ok = 0
    for p in paths:
        calls = [(src(c), i) for c, i in P.calls_on_path(p)]
        names = [c.split("(")[0] for c, i in calls]
        if p[-1][0] == "return":
            n_ok += 1
            need = ["tempfile.mkstemp", "temp.write", "temp.close",
                    "os.rename"]
            idx = []
            for nm in need:
                alt = [i for i, x in enumerate(names)
                       if x == nm or (nm == "os.rename" and x == "os.replace")]
                idx.append(alt[0] if alt else -1)
            good = all(i >= 0 for i in idx) and idx == sorted(idx)
            rep.check(good, "R15.2", site, "on a successful store: create "
                      "temp, write, close, then rename to the final name",
                      construct="store-order", where=wh,
                      detail=str(names))
            rn = [c for c, i in calls if c.startswith(("os.rename(",
                                                       "os.replace("))]
            rep.check(rn == ["os.rename(fn, name)"] or
                      rn == ["os.replace(fn, name)"], "R15.2", site,
                      "the final name is produced by renaming the temporary "
                      "file, exactly once", construct="rename-args", where=wh,
                      detail=str(rn))
        elif p[-1][0] == "raise":
            wrote = "tempfile.mkstemp" in names
            failed_in_write = any(e[0] == "except" and e[1] == "BaseException"
                                  for e in p)
            if wrote and failed_in_write:
                rep.check("os.remove" in names and "os.rename" not in names,
                          "R15.2", site, "a failed write removes the "
                          "temporary file and never renames it",
                          construct="cleanup", where=wh, detail=str(names))
    rep.check(n_ok >= 1, "R15.2", site, "a successful path exists",
              construct="success-path", where=wh)
    # open for writing only through the temp file descriptor
    opens = [n for n in ast.walk(f.node) if isinstance(n, ast.Call)
             and src(n.func) in ("open", "os.fdopen")]
    rep.check(len(opens) == 1 and src(opens[0].func) == "os.fdopen",
              "R15.2", site, "the final name is never opened for writing",
              construct="no-direct-write", where=wh,
              detail=str([src(o) for o in opens]))
    # who-may-write: nobody else in the package writes files
    writers = []
    for q, g in repo.funcs.items():
        for n in ast.walk(g.node):
            if isinstance(n, ast.Call) and src(n.func) in (
                    "open", "os.fdopen", "os.rename", "os.replace",
                    "shutil.copy", "shutil.move", "tempfile.mkstemp"):
                mode = ""
                if src(n.func) == "open":
                    if len(n.args) > 1:
                        mode = src(n.args[1])
                    for k in n.keywords:
                        if k.arg == "mode":
                            mode = src(k.value)
                    if "w" not in mode and "a" not in mode and \
                            "+" not in mode:
                        continue
                writers.append((q, src(n)[:50]))
    others = [w for w in writers if not w[0].startswith(LD + "ModuleLoader.")]
    rep.check(not others, "R15.2", "chameleon.*", "ModuleLoader is the only "
              "code in the package that creates or renames files",
              construct="other-writers", detail=str(others))
    # ... and the only one that changes sys.modules; the template reads a
    # stored module's namespace without taking anything out of it
    MUT = ("pop", "popitem", "clear", "update", "setdefault")
    mods_w = []
    for q, g in repo.funcs.items():
        for n in ast.walk(g.node):
            hit = None
            if isinstance(n, ast.Call) and isinstance(
                    n.func, ast.Attribute) and n.func.attr in MUT and \
                    src(n.func.value) == "sys.modules":
                hit = src(n)[:50]
            elif isinstance(n, (ast.Assign, ast.Delete)):
                for t_ in n.targets:
                    if isinstance(t_, ast.Subscript) and \
                            src(t_.value) == "sys.modules":
                        hit = src(t_)[:50]
            if hit and not q.startswith(LD + "ModuleLoader."):
                mods_w.append((q, hit))
    rep.check(not mods_w, "R15.3", "chameleon.*", "sys.modules is changed "
              "by ModuleLoader only (a template that removes the entry it "
              "looks at breaks the next lookup, also of another thread)",
              construct="sys-modules-writers", detail=str(mods_w))
    ck_ = repo.func(BT + "_cook")
    taken = [src(n)[:50] for n in ast.walk(ck_.node)
             if isinstance(n, ast.Call) and isinstance(n.func, ast.Attribute)
             and n.func.attr in MUT + ("__delitem__",)
             and src(n.func.value) == "cooked"]
    taken += [src(t_)[:50] for n in ast.walk(ck_.node)
              if isinstance(n, (ast.Assign, ast.Delete)) for t_ in n.targets
              if isinstance(t_, ast.Subscript)
              and src(t_.value) == "cooked"]
    rep.check(not taken, "R15.3", ck_.qualname, "the namespace of a stored "
              "module (shared by every template with that key) is read, "
              "never changed", construct="cooked-read-only",
              where=L.where(ck_), detail=str(taken))
    # the configured cache directory is never removed: the loader's remove
    # flag is raised only for the scratch directory it made itself
    mk = repo.func("chameleon.template._make_module_loader")
    okr = True
    rdetail = []
    n_paths = 0
    for path in P.enum_paths(mk.node.body):
        conds = [(src(e[1]), e[2]) for e in path if e[0] == "cond"]
        val = None
        for e in path:
            if e[0] == "assign" and e[1] == "remove":
                val = e[2]
        n_paths += 1
        own = any(e[0] == "assign" and "mkdtemp(" in src(e[2]) for e in path)
        flag = isinstance(val, ast.Constant) and val.value is True
        if flag != own:
            okr = False
            rdetail.append("remove=%s on the path [%s]" % (
                src(val) if val is not None else "?",
                "; ".join("%s=%s" % c for c in conds)))
    rep.check(okr and n_paths >= 2, "R15.2", mk.qualname, "the loader "
              "removes its directory on exit only if it created it "
              "(tempfile.mkdtemp): a configured cache directory stays",
              construct="remove-own-dir-only", where=L.where(mk),
              detail="; ".join(rdetail))
    # ... and the loader class agrees: remove defaults to False and the
    # directory is deleted only when the flag is set
    mli = repo.func(LD + "ModuleLoader.__init__")
    a_ = mli.node.args
    nm_ = [x.arg for x in a_.args]
    df_ = dict(zip(nm_[len(nm_) - len(a_.defaults):], a_.defaults))
    rd_ = df_.get("remove")
    mld = repo.func(LD + "ModuleLoader.__del__")
    rm = [c for c in ast.walk(mld.node) if isinstance(c, ast.Call)
          and src(c.func).endswith("rmtree")]
    okd = bool(rm) and isinstance(rd_, ast.Constant) and rd_.value is False
    for c in rm:
        # the early 'if not self.remove: return' or an enclosing 'if
        # self.remove:' -- either way rmtree runs with the flag set
        gs = [(src(t_), v_) for t_, v_ in L.guards_of(c, mld.node)
              if isinstance(t_, ast.expr)]
        early = [n for n in mld.node.body if isinstance(n, ast.If)
                 and n.lineno < c.lineno and any(
                     isinstance(x, ast.Return) for x in n.body)]
        pre = [(src(n.test), False) for n in early]
        if not L.cond_holds(gs + pre, "self.remove", True):
            okd = False
    rep.check(okd, "R15.2", mld.qualname, "a module loader deletes its "
              "directory only when told to (remove, default False)",
              construct="remove-flag", where=L.where(mld),
              detail="default %s" % (src(rd_) if rd_ is not None else "?"))
    # the installed versions enter the key as they are (a package without
    # a version as '')
    gv = repo.func("chameleon.template.get_package_versions")
    calls = [n for n in ast.walk(gv.node) if isinstance(n, ast.Call)
             and src(n.func) == "safe_get_package_version"]
    okv = bool(calls)
    for c in calls:
        par = getattr(c, "_parent", None)
        if isinstance(par, ast.BoolOp) and not (
                isinstance(par.op, ast.Or) and par.values[0] is c):
            okv = False
    rep.check(okv, "R15.1", gv.qualname, "each distribution contributes its "
              "version to the key (missing: '')",
              construct="versions-in-key", where=L.where(gv))
    # name derivation: final name is base + '.py' inside self.path
    t = L.text(f.node)
    rep.check("name = os.path.join(self.path, base + '.py')" in t, "R15.2",
              site, "the final name is <cache dir>/<key>.py",
              construct="final-name", where=wh)


def _lookup(repo, rep):
    g = repo.func(LD + "ModuleLoader.get")
    t = L.text(g.node)
    rep.check("path = os.path.join(self.path, filename)" in t and
              any(isinstance(n, ast.If) and
                  src(L._CanonIf._pos(n.test)[0]) == "os.path.exists(path)"
                  for n in ast.walk(g.node)) and
              "return self._load(base, path)" in t and "return None" in t and
              sum(1 for n in ast.walk(g.node) if isinstance(n, ast.Assign)
                  and src(n.targets[0]) == "path") == 1,
              "R15.3", g.qualname, "an entry is found by exact file name "
              "only (no prefix or glob matching)", construct="exact-lookup",
              where=L.where(g))
    ld = repo.func(LD + "ModuleLoader._load")
    body = ld.node.body
    ok = len(body) >= 2 and src(body[0]) == "acquire_lock()" and \
        isinstance(body[1], ast.Try) and body[1].finalbody and \
        src(body[1].finalbody[0]) == "release_lock()"
    rep.check(ok, "R15.3", ld.qualname, "loading runs under the same lock",
              construct="load-lock", where=L.where(ld))
    t = L.text(ld.node)
    rep.check("module = sys.modules.get(base)" in t and
              "sys.modules[base] = module" in t and
              t.index("loader.exec_module(module)") <
              t.index("sys.modules[base] = module"), "R15.3", ld.qualname,
              "a module is published in sys.modules only after it executed "
              "completely", construct="publish-after-exec", where=L.where(ld))
    ck = repo.func(BT + "_cook")
    t = L.text(ck.node)
    rep.check("self.loader.get(filename)" in t and
              "self.loader.build(source, filename)" in t and
              "filename = self._get_module_name(name)" in t, "R15.3",
              ck.qualname, "lookup and store use the same file name derived "
              "from the key", construct="same-name", where=L.where(ck))
    gm = repo.func("chameleon.template.BaseTemplateFile._get_module_name")
    t = L.text(gm.node, body_only=True)
    rep.check(any(t_ == "%s_%s.py" and [src(x) for x in a_] ==
                  ["mangled", "name"] for t_, a_, n_ in L.fmt_sites(gm.node)),
              "R15.3", gm.qualname,
              "file templates prefix the key with the mangled file name",
              construct="file-module-name", where=L.where(gm))
