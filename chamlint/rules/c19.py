"""C19 -- strict mode changes only when an invalid expression is reported."""
from __future__ import annotations

import ast

from .. import absint as A
from .. import lib as L
from ..core import AnalysisError, src

COMP = "chameleon.compiler."
ET = COMP + "ExpressionTransform."


def run(repo, rep, tier):
    rep.explanation = (
        "'strict' is a flag; what it can change is decided by a def-use "
        "analysis of the flag over the whole package: every occurrence is "
        "either plumbing (passed on as an argument, stored, hashed into the "
        "cache key) or a decision (used in a test).  There must be exactly "
        "one decision, inside the 'except ExpressionError' handler of "
        "ExpressionTransform.__call__ -- hence for a template that raises no "
        "ExpressionError both modes execute the same compiler code and emit "
        "the same program (a for-all argument over templates and inputs).  "
        "The non-strict branch must emit, in place of the expression's "
        "statements, a token reference and a raise of the pickled error.  "
        "Every expression is compiled through that try (the Compiler never "
        "calls the expression engine directly).  The unit of deferral is "
        "checked as well: to raise 'iff rendering reaches that expression' "
        "for a later pipe alternative, the handler would have to enclose one "
        "alternative, not the whole pipe.")
    rep.assumptions = ["pickle round-trips ExpressionError (TemplateError "
                       "defines __copy__/reduce-compatible args)"]
    rep.rule("R19.1", "single consumer: the only decision on 'strict' is in "
                      "the ExpressionError handler of the expression "
                      "transformer; everything else is plumbing")
    rep.rule("R19.2", "non-strict: the expression's statements are replaced "
                      "by a token reference and a raise of the same error")
    rep.rule("R19.3", "every expression is compiled through that handler")
    rep.rule("R19.4", "deferral unit: one pipe alternative, not the whole "
                      "expression")
    rep.rule("R19.5", "same error, same location, raised iff reached: "
                      "nobody re-sources the error's token; ExpressionError "
                      "is not among the exceptions a pipe swallows")
    _consumer(repo, rep)
    _deferred(repo, rep)
    _through(repo, rep)
    _unit(repo, rep)
    _same_error(repo, rep)
    # 'strict compilation fails when the template is compiled' -- on every
    # use while the file is invalid: a changed file lowers the compiled flag
    # itself (a local 'stale' decision is forgotten when cook() raises)
    from . import c16
    L.borrow(repo, rep, "R19.5", "C16", c16._cook_check, ("mtime-compare",))
    # the deferred error is a pickled copy: pickling a Token keeps pos,
    # source and file name (no pickling hook that drops one of them)
    tok = repo.cls("chameleon.tokenize.Token")
    hooks = [m for m in ("__getstate__", "__reduce__", "__reduce_ex__",
                         "__copy__", "__deepcopy__", "__getnewargs__",
                         "__getnewargs_ex__") if m in tok.methods]
    lossy = []
    for h in hooks:
        fn = tok.methods[h]
        t_ = src(fn.node)
        cond = any(isinstance(n, (ast.If, ast.IfExp)) for n in ast.walk(
            fn.node))
        if cond or not all(x in t_ for x in ("pos", "source", "filename")):
            lossy.append(h)
    rep.check(not lossy, "R19.5", tok.qualname, "a pickled / copied Token "
              "keeps its position, source text and file name "
              "unconditionally", construct="token-pickle-lossless",
              detail="hooks: %s, lossy: %s" % (hooks, lossy))
    # 'raised iff reached': a tal:case expression after a matched case is
    # not reached -- its cached evaluation sits below the not-cancelled guard
    from . import c01
    L.borrow(repo, rep, "R19.5", "C01", c01.order, ("kind:case",))
    # non-strict mode defers what the handler of ExpressionError catches:
    # every TemplateError class raised by the expression layer (tales.py,
    # the expression parser) has to BE an ExpressionError
    ee = repo.cls("chameleon.exc.ExpressionError")
    te = repo.cls("chameleon.exc.TemplateError")
    raised = {}
    for q_, fn_ in sorted(repo.funcs.items()):
        if fn_.module.name != "chameleon.tales":
            continue
        for n_ in ast.walk(fn_.node):
            if isinstance(n_, ast.Raise) and isinstance(n_.exc, ast.Call):
                r_ = repo.resolve_attr(fn_.module, n_.exc.func)
                if r_ and r_[0] == "class":
                    own_, ext_ = L.class_closure(repo, r_[1])
                    if te.qualname in own_:
                        raised[r_[1].qualname] = (ee.qualname in own_,
                                                  fn_, n_.lineno)
    if len(raised) < 2:
        raise AnalysisError("template errors raised in tales.py: %s"
                            % sorted(raised))
    for cq, (is_ee, fn_, ln_) in sorted(raised.items()):
        rep.check(is_ee, "R19.2", cq, "a template error raised while an "
                  "expression is compiled is an ExpressionError (the class "
                  "the non-strict handler defers)",
                  construct="expression-layer-raises:" + cq.split(".")[-1],
                  where=L.where(fn_, ln_))
    # ... and a lookup in a table keyed by user-chosen text (expression type
    # prefixes, the template's default type) is one of them: every read of
    # the factory table sits under a handler that turns the KeyError into
    # such an error (a bare KeyError is neither reported with a location in
    # strict mode nor deferred otherwise)
    pc = repo.func("chameleon.tales.ExpressionParser.__call__")
    reads = [n_ for n_ in ast.walk(pc.node)
             if isinstance(n_, ast.Subscript) and isinstance(n_.ctx, ast.Load)
             and src(n_.value) == "self.factories"]
    if not reads:
        raise AnalysisError("ExpressionParser.__call__: no read of the "
                            "factory table")
    for n_ in reads:
        ok_ = False
        a_, prev_ = getattr(n_, "_parent", None), n_
        while a_ is not None and a_ is not pc.node:
            if isinstance(a_, ast.Try) and any(
                    prev_ is b_ for b_ in a_.body):
                for h_ in a_.handlers:
                    if h_.type is not None and any(
                            src(t_) in ("KeyError", "LookupError")
                            for t_ in (h_.type.elts if isinstance(
                                h_.type, ast.Tuple) else [h_.type])):
                        for r_ in ast.walk(h_):
                            if isinstance(r_, ast.Raise) and isinstance(
                                    r_.exc, ast.Call):
                                c_ = repo.resolve_attr(pc.module,
                                                       r_.exc.func)
                                if c_ and c_[0] == "class" and ee.qualname \
                                        in L.class_closure(repo, c_[1])[0]:
                                    ok_ = True
            prev_, a_ = a_, getattr(a_, "_parent", None)
        rep.check(ok_, "R19.2", pc.qualname, "an expression type that is "
                  "not registered (prefix or default type) is reported as "
                  "an ExpressionError", construct="factory-lookup-guarded",
                  where=L.where(pc, n_.lineno), detail=src(n_))
    # an empty expression is the expression engine's to report (deferred in
    # non-strict mode): the statement patterns admit it (C01 owns them)
    from . import c01 as _c01
    L.borrow(repo, rep, "R19.2", "C01", _c01.statement_patterns,
             ("statement-space", "statement-expression-width",
              "split-parts-steps"), minimum=3)
    # every token the tokenizers make carries the file name they were given
    # (a deferred error is pickled with its token: the name is not added
    # later as for compile-time errors)
    for tq in ("chameleon.tokenize.iter_xml", "chameleon.tokenize.iter_text"):
        tf = repo.func(tq)
        prm = [x.arg for x in tf.node.args.args]
        toks = [c for c in ast.walk(tf.node) if isinstance(c, ast.Call)
                and src(c.func) == "Token"]
        okf = bool(toks) and "filename" in prm and all(
            any(src(a_) == "filename" for a_ in list(c.args) +
                [k.value for k in c.keywords]) for c in toks)
        rep.check(okf, "R19.3", tq, "tokens are stamped with the file name",
                  construct="token-filename-forwarded", where=L.where(tf))
    from . import c11 as _c11
    _c11.filename_chain(repo, rep, "R19.3")
    L.borrow(repo, rep, "R19.3", "C11", _c11._location, ("location-pair",))
    # every alternative of a pipe expression is compiled (and so validated:
    # an invalid one is an error of the template wherever it stands): the
    # loop over the alternatives ends when the text is used up, not earlier
    tc = repo.func("chameleon.tales.TalesExpr.__call__")
    loops_ = [w for w in ast.walk(tc.node) if isinstance(w, ast.While)]
    early = []
    for w in loops_:
        for b in ast.walk(w):
            if isinstance(b, (ast.Break, ast.Return)):
                a = getattr(b, "_parent", None)
                inner = False
                while a is not None and a is not w:
                    if isinstance(a, (ast.For, ast.While)):
                        inner = True
                    a = getattr(a, "_parent", None)
                if not inner:
                    early.append(b)
    rep.check(bool(loops_) and not early, "R19.2", tc.qualname, "the loop "
              "over the alternatives of a pipe expression compiles all of "
              "them", construct="pipe-all-alternatives", where=L.where(
                  tc, early[0].lineno if early else None))
    L.state_rule(repo, rep)


def _consumer(repo, rep):
    decisions = []
    plumbing = []
    for m in repo.modules.values():
        for n in ast.walk(m.tree):
            is_use = (isinstance(n, ast.Attribute) and n.attr == "strict" and
                      isinstance(n.ctx, ast.Load)) or \
                     (isinstance(n, ast.Name) and n.id == "strict" and
                      isinstance(n.ctx, ast.Load))
            if isinstance(n, ast.Call) and src(n.func) in (
                    "getattr", "hasattr") and len(n.args) >= 2 and \
                    isinstance(n.args[1], ast.Constant) and \
                    n.args[1].value == "strict":
                decisions.append((m, n))
                continue
            if not is_use:
                continue
            p = getattr(n, "_parent", None)
            kind = "decision"
            if isinstance(p, ast.keyword):
                kind = "plumbing"       # strict=self.strict / strict=strict
            elif isinstance(p, ast.Assign) and p.value is n:
                kind = "plumbing"       # self.strict = strict
            elif isinstance(p, ast.Call) and n in p.args:
                kind = "plumbing"
            (decisions if kind == "decision" else plumbing).append((m, n))
    rep.count("strict_uses", len(decisions) + len(plumbing))
    site = ET + "__call__"
    rep.check(len(decisions) == 1, "R19.1", site,
              "'strict' is consulted in exactly one place",
              construct="decision-count",
              detail=str([(m.name, n.lineno) for m, n in decisions]))
    for m, n in decisions:
        # enclosing function and handler
        p = n
        handler = func = cls = None
        while p is not None:
            if isinstance(p, ast.ExceptHandler) and handler is None:
                handler = p
            if isinstance(p, ast.FunctionDef) and func is None:
                func = p
            if isinstance(p, ast.ClassDef) and cls is None:
                cls = p
            p = getattr(p, "_parent", None)
        where = "%s:%d" % (m.relpath, n.lineno)
        ok = handler is not None and handler.type is not None and \
            src(handler.type) == "ExpressionError" and func is not None and \
            func.name == "__call__" and cls is not None and \
            cls.name == "ExpressionTransform"
        rep.check(ok, "R19.1", "%s.%s.%s" % (
            m.name, cls.name if cls else "?", func.name if func else "?"),
            "the decision on 'strict' sits in the 'except ExpressionError' "
            "handler of ExpressionTransform.__call__ (a template without "
            "invalid expressions never reaches it)",
            construct="decision-site", where=where)
        if ok:
            par = getattr(n, "_parent", None)
            good = isinstance(par, ast.If) and par.test is n and \
                len(par.body) == 1 and isinstance(par.body[0], ast.Raise) \
                and par.body[0].exc is None
            rep.check(good, "R19.1", site, "strict: the ExpressionError is "
                      "re-raised at compile time", construct="strict-reraise",
                      where=where)
    # plumbing chain
    comp = repo.func("chameleon.template.BaseTemplate._compile")
    t = L.text(comp.node)
    rep.check("strict=self.strict" in t, "R19.1", comp.qualname,
              "the template's flag is handed to the compiler",
              construct="plumb-compile", where=L.where(comp))
    ci = repo.func(COMP + "Compiler.__init__")
    t = L.text(ci.node)
    rep.check("strict=strict" in t and "ExpressionTransform(" in t, "R19.1",
              ci.qualname, "the compiler hands it to the expression "
              "transformer", construct="plumb-compiler", where=L.where(ci))
    ei = repo.func(ET + "__init__")
    t = L.text(ei.node, body_only=True)
    rep.check("self.strict = strict" in t, "R19.1", ei.qualname,
              "the transformer stores it", construct="plumb-store",
              where=L.where(ei))
    from .c15 import hashed_options
    rep.check("strict" in hashed_options(
        repo, "chameleon.zpt.template.PageTemplate"), "R19.1",
        "chameleon.zpt.template.PageTemplate.digest", "the flag is part of "
        "the module cache key (a strict and a non-strict compilation are "
        "never confused)", construct="hashed")
    pf = repo.func("chameleon.zpt.template.PageTemplateFile.__init__")
    lc = [n for n in ast.walk(pf.node) if isinstance(n, ast.Call)
          and src(n.func) == "loader_class"]
    ok = len(lc) == 1 and any(k.arg is None and src(k.value) == "config"
                              for k in lc[0].keywords)
    rep.check(ok, "R19.1", pf.qualname, "templates loaded through load: get "
              "the parent's options unfiltered (**config), so a non-strict "
              "template's sub-templates are non-strict too -- a False value "
              "must not be dropped", construct="plumb-load", where=L.where(pf),
              detail=str([src(x)[:80] for x in lc]))
    tl = repo.func("chameleon.loader.TemplateLoader.load")
    t2 = L.text(tl.node)
    rep.check("**self.kwargs" in t2, "R19.1", tl.qualname, "the loader "
              "passes the stored options on to every template it creates",
              construct="plumb-loader", where=L.where(tl))
    dv = repo.cls("chameleon.template.BaseTemplate").attrs.get("strict")
    rep.check(isinstance(dv, ast.Constant) and dv.value is True, "R19.1",
              "chameleon.template.BaseTemplate.strict",
              "strict is the default", construct="default")


def deferred_error_untouched(repo, rep, rule="R19.2"):
    """'the same ExpressionError, with the same location': between catching
    the error and pickling it nothing is stored into it (its arguments, its
    token) -- what is raised later is what strict mode raises now"""
    f = repo.func(ET + "__call__")
    hs = [h for n in ast.walk(f.node) if isinstance(n, ast.Try)
          for h in n.handlers if h.type is not None
          and "ExpressionError" in src(h.type)]
    if len(hs) != 1 or not hs[0].name:
        rep.check(False, rule, f.qualname, "exactly one handler catches "
                  "ExpressionError (and nothing else) around the "
                  "translation of an expression",
                  construct="deferred-error-untouched", where=L.where(f),
                  detail="%d handler(s) of ExpressionError" % len(hs))
        return
    name = hs[0].name
    stores = []
    for n in ast.walk(hs[0]):
        tgts = []
        if isinstance(n, ast.Assign):
            tgts = n.targets
        elif isinstance(n, (ast.AugAssign, ast.AnnAssign)):
            tgts = [n.target]
        elif isinstance(n, ast.Delete):
            tgts = n.targets
        for t in tgts:
            for x in ast.walk(t):
                if isinstance(x, (ast.Attribute, ast.Subscript)) and any(
                        isinstance(y, ast.Name) and y.id == name
                        for y in ast.walk(x.value)):
                    stores.append(n)
        if isinstance(n, ast.Call) and src(n.func) in (
                "setattr", "delattr", "object.__setattr__") and n.args and \
                src(n.args[0]) == name:
            stores.append(n)
    dumped = [n for n in ast.walk(hs[0]) if isinstance(n, ast.Call)
              and src(n.func).endswith("dumps") and n.args]
    same = len(dumped) == 1 and src(dumped[0].args[0]) == name
    rep.check(same and not stores, rule, f.qualname, "the caught "
              "ExpressionError is pickled as it is: nothing is stored into "
              "it (arguments, token, source) before pickle.dumps(%s)" % name,
              construct="deferred-error-untouched",
              where=L.where(f, stores[0].lineno) if stores else L.where(f),
              detail="; ".join(src(n)[:70] for n in stores[:3]))


def _deferred(repo, rep):
    f = repo.func(ET + "__call__")
    site = f.qualname
    wh = L.where(f)
    res = L.emission(repo, f.qualname)
    v = res.value
    # locate the handler alternative
    handler = None
    for w in A.walk(v):
        if isinstance(w, A.Alt) and "no exception in try" in w.test:
            handler = w
    rep.check(handler is not None, "R19.2", site, "the translation of an "
              "expression is protected by a handler", construct="try",
              where=wh)
    if handler is None:
        return
    normal, deferred = handler.a, handler.b
    rep.check(any(isinstance(w, A.CallV) and w.name == "_translate" or
                  isinstance(w, A.Alt) and "cached" in w.test
                  for w in A.walk(normal)), "R19.2", site,
              "normal path: the statements produced by _translate",
              construct="normal", where=wh)
    items = list(A.flatten(deferred))
    kinds = []
    for it, conds in items:
        if isinstance(it, A.Frag) and L.frag_find(it, "__exc = _L(_P)"):
            kinds.append("loads")
            b = L.frag_find(it, "__exc = _L(_P)")[0][1]
            lv = L.slot_value(it, b["_L"])
            pv = L.slot_value(it, b["_P"])
            rep.check(lv is not None and "loads_symbol" in A.show(lv) and
                      pv is not None and "Constant" in A.show(pv, limit=3),
                      "R19.2", site, "the pickled error is embedded as a "
                      "constant and unpickled at run time",
                      construct="loads-args", where=wh)
        elif isinstance(it, A.Internal) and it.kind == "TokenRef":
            kinds.append("tokenref")
            rep.check(A.show(it.args[0]).replace('`', '') == "exc.token", "R19.2", site,
                      "the deferred error reports the invalid expression's "
                      "own token (same location as in strict mode)",
                      construct="deferred-token", where=wh)
        elif isinstance(it, A.Py) and it.kind == "Raise":
            kinds.append("raise")
            rep.check("__exc" in A.show(it.f.get("exc")), "R19.2", site,
                      "the unpickled error itself is raised",
                      construct="deferred-raise", where=wh)
        else:
            kinds.append(type(it).__name__)
    rep.check(kinds == ["loads", "tokenref", "raise"], "R19.2", site,
              "non-strict: the expression's statements are exactly "
              "'unpickle; token reference; raise' -- emitted at the "
              "expression's site, so the error is raised iff rendering "
              "reaches it", construct="deferred-shape", where=wh,
              detail=str(kinds))
    t = L.text(f.node)
    rep.check("p = pickle.dumps(exc, -1)" in t, "R19.2", site,
              "the error that strict mode would raise is the one pickled",
              construct="dumps", where=wh)
    deferred_error_untouched(repo, rep)
    ls = repo.cls(COMP + "ExpressionTransform").attrs.get("loads_symbol")
    rep.check(ls is not None and src(ls) == "Symbol(pickle.loads)", "R19.2",
              COMP + "ExpressionTransform.loads_symbol",
              "the run-time unpickler is pickle.loads",
              construct="loads-symbol")
    # the result replaces the statements (same variable is returned)
    rep.check("stmts = [self.visitor(stmt) for stmt in stmts]" in t and
              "return stmts" in t, "R19.2", site, "either list goes through "
              "the same name rewriting and is returned in place",
              construct="in-place", where=wh)


def _through(repo, rep):
    comp = repo.cls(COMP + "Compiler")
    n_eng = 0
    direct = []
    for name, m in comp.methods.items():
        for n in ast.walk(m.node):
            if isinstance(n, ast.Call):
                t = src(n.func)
                if t == "self._engine":
                    n_eng += 1
                if t.endswith(".parse") and "engine" in t or \
                        t.endswith("engine_factory") or \
                        t in ("ExpressionEngine", "self._engine._translate"):
                    direct.append((m.qualname, n.lineno, t))
    rep.check(n_eng >= 10, "R19.3", comp.qualname, "the emitters compile "
              "expressions through self._engine (the expression transformer)",
              construct="engine-calls", detail=str(n_eng))
    rep.check(not direct, "R19.3", comp.qualname, "no emitter calls the "
              "expression engine directly (bypassing the ExpressionError "
              "handler)", construct="bypass", detail=str(direct))
    ci = repo.func(COMP + "Compiler.__init__")
    t = L.text(ci.node)
    rep.check("self._engine = ExpressionTransform(" in t, "R19.3",
              ci.qualname, "self._engine is the expression transformer",
              construct="engine-is-transformer", where=L.where(ci))
    f = repo.func(ET + "__call__")
    tries = [n for n in f.node.body if isinstance(n, ast.Try)]
    ok = len(tries) == 1 and any(
        isinstance(c, ast.Call) and src(c.func) == "self._translate"
        for c in ast.walk(ast.Module(body=tries[0].body, type_ignores=[])))
    rep.check(ok, "R19.3", f.qualname, "the translation runs inside the "
              "try whose handler decides on 'strict'",
              construct="translate-in-try", where=L.where(f))
    # nested visit_* go through _translate (inside the same try), not __call__
    et = repo.cls(COMP + "ExpressionTransform")
    for name, m in et.methods.items():
        if not name.startswith("visit_"):
            continue
        for n in ast.walk(m.node):
            if isinstance(n, ast.Try):
                rep.bad("R19.3", m.qualname, "sub-expression visitors have "
                        "no error handling of their own", "nested-try",
                        where=L.where(m, n.lineno))
    rep.ok("R19.3", et.qualname, "sub-expression visitors propagate "
                                 "ExpressionError to the single handler")


def _unit(repo, rep):
    f = repo.func("chameleon.tales.TalesExpr.__call__")
    loops = [n for n in f.node.body if isinstance(n, ast.While)]
    per_alt = False
    for lp in loops:
        for n in ast.walk(lp):
            if isinstance(n, ast.Try) and any(
                    h.type is not None and "ExpressionError" in src(h.type)
                    for h in n.handlers):
                per_alt = True
    rep.check(per_alt, "R19.4", f.qualname,
              "an invalid *alternative* of a pipe is deferred on its own "
              "(raised iff rendering reaches that alternative)",
              construct="deferral-unit:whole-expression", where=L.where(f),
              detail="the only handler that defers an ExpressionError "
                     "(ExpressionTransform.__call__) encloses the whole "
                     "expression; no handler sits inside the alternative "
                     "loop")


def _same_error(repo, rep):
    # (a) the location of the error is that of its token in the parsed
    # text: no code outside the Token class rewrites token.pos / .source
    # (strict mode's error passes through BaseTemplate._cook's handler,
    # non-strict mode's does not)
    stores = L.token_field_stores(repo)
    rep.check(not stores, "R19.5", "chameleon", "no function outside Token "
              "assigns token.pos / token.source: the compile-time error and "
              "the deferred error keep the location the compiler gave them",
              construct="token-resourced",
              where=(L.where(stores[0][0], stores[0][1]) if stores else ""),
              detail="; ".join("%s: %s" % (f.qualname, t)
                               for f, ln, t in stores[:3]))
    # (a') the only thing _cook's handler does to a compile-time error is
    # stamping the file name on its token; it builds no new token and does
    # not replace the exception's arguments
    ck = repo.func("chameleon.template.BaseTemplate._cook")
    hs = [h for n in ast.walk(ck.node) if isinstance(n, ast.Try)
          for h in n.handlers if h.type is not None
          and "TemplateError" in src(h.type)]
    okh = len(hs) == 1
    detail = ""
    if okh:
        for st in hs[0].body:
            t = src(st).replace(" ", "")
            if isinstance(st, ast.Raise) and st.exc is None:
                continue
            if isinstance(st, ast.Assign) and len(st.targets) == 1 and \
                    src(st.targets[0]).endswith(".token.filename"):
                continue
            okh = False
            detail = src(st)[:120]
    rep.check(okh, "R19.5", ck.qualname, "the compile-error handler only "
              "stamps the file name on the error's token and re-raises (the "
              "token, its source and its position stay the compiler's)",
              construct="cook-handler-shape", where=L.where(ck),
              detail=detail)
    # (a'') 'strict' given to a loader reaches the templates it creates:
    # the keyword options are stored as given and passed on unfiltered
    ld = repo.func("chameleon.loader.TemplateLoader.__init__")
    kw = ld.node.args.kwarg.arg if ld.node.args.kwarg else None
    stored = [n for n in ast.walk(ld.node) if isinstance(n, ast.Assign)
              and src(n.targets[0]) == "self.kwargs"]
    rep.check(kw is not None and len(stored) == 1 and
              src(stored[0].value) == kw, "R19.5", ld.qualname, "the "
              "loader keeps its keyword options exactly as given (a False or "
              "None value, e.g. strict=False, is an option too)",
              construct="loader-kwargs-stored", where=L.where(ld),
              detail=src(stored[0])[:120] if stored else "")
    lo = repo.func("chameleon.loader.TemplateLoader.load")
    calls = [n for n in ast.walk(lo.node) if isinstance(n, ast.Call)
             and src(n.func) == "cls"]
    rep.check(bool(calls) and all(any(
        k.arg is None and src(k.value) == "self.kwargs" for k in c.keywords)
        for c in calls), "R19.5", lo.qualname, "every template the loader "
        "creates receives those options (**self.kwargs)",
        construct="loader-kwargs-passed", where=L.where(lo))
    # (b) raised iff reached: the deferred error must not be one that the
    # pipe operator / exists: swallow
    ee = repo.cls("chameleon.exc.ExpressionError")
    own, ext = L.class_closure(repo, ee)
    for q in ("chameleon.tales.TalesExpr", "chameleon.tales.ExistsExpr"):
        ci = repo.cls(q)
        ex = ci.attrs.get("exceptions")
        names = [src(e) for e in ex.elts] if isinstance(ex, ast.Tuple) else []
        if not names:
            raise AnalysisError("%s.exceptions vanished" % q)
        hit = sorted(b for b in ext if L.builtin_subclass(b, names)) + \
            sorted(n for n in names if any(
                o.rsplit(".", 1)[-1] == n for o in own))
        rep.check(not hit, "R19.5", q + ".exceptions", "ExpressionError (and "
                  "its bases %s) is not caught by the fallback table %s: a "
                  "reached invalid expression is not replaced by the next "
                  "alternative" % (sorted(ext), names),
                  construct="swallowed:" + q.rsplit(".", 1)[-1],
                  detail="caught through %s" % hit)
