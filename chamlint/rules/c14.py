"""C14 -- rendering is deterministic, side-effect free on its inputs, and
thread-safe (structural necessary conditions only)."""
from __future__ import annotations

import ast

from .. import absint as A
from .. import lib as L
from ..core import AnalysisError, src

BT = "chameleon.template.BaseTemplate."
ZT = "chameleon.zpt.template."
COMP = "chameleon.compiler."

MUTATORS = {"append", "extend", "insert", "pop", "remove", "clear", "add",
            "update", "setdefault", "discard", "popitem", "sort", "reverse",
            "appendleft"}


def run(repo, rep, tier):
    rep.explanation = (
        "Thread interleavings and cross-process equality are NOT decided "
        "(schedules are outside static reach here).  Decided are the "
        "structural conditions without which the property cannot hold: "
        "(1) an effect analysis over the call graph reachable from the "
        "render entry points (cook_check excluded): no function on it stores "
        "to self.*, to a module global or to a class-level container, and "
        "every per-render object (variable scope, global context, output "
        "stream, repeat dictionary) is constructed inside the call; the "
        "caller's keyword dictionary is only extended through setdefault on "
        "the ** copy; (2) the preamble of a generated module binds only "
        "immutable objects; (3) every generated local that has to survive "
        "the emission of a child node carries a per-node identity (G-LIVE "
        "swept over all emitters) and iteration over sets in emitters is "
        "confined to loops whose emissions commute; (4) cook() publishes "
        "compiled functions before it sets the compiled flag; (5) the "
        "module loader holds its lock in try/finally.")
    rep.assumptions = [
        "schedules of cook_check and the unlocked check-then-act of "
        "TemplateLoader.registry / utils.module_cache are not analysed",
        "objects passed by the caller are only reachable through the "
        "template's own expressions",
    ]
    rep.rule("R14.1", "render path has no stores to shared state; per-render "
                      "state is constructed inside the call")
    rep.rule("R14.2", "the generated module's preamble binds immutable "
                      "objects only")
    rep.rule("R14.3", "G-LIVE over all emitters + G-SETITER (set iteration "
                      "only where emissions commute)")
    rep.rule("R14.4", "publish before flag in cook(); class-level containers "
                      "are never mutated through instances")
    rep.rule("R14.5", "lock discipline of the module loader")
    _effects(repo, rep)
    _caller_objects(repo, rep)
    _preamble(repo, rep)
    _identifiers(repo, rep)
    _publish(repo, rep)
    _locks(repo, rep)
    # nothing of an earlier version of the template is visible after it was
    # compiled again (C16 owns the rule)
    from . import c16
    L.borrow(repo, rep, "R14.4", "C16", c16._retire,
             ("retire-filter", "stale-entry-points"), minimum=2)
    # shared registries are changed by their owner only (C15 owns the rule)
    from . import c15
    L.borrow(repo, rep, "R14.4", "C15", c15._store,
             ("sys-modules-writers", "cooked-read-only"), minimum=2)
    # two configurations that compile differently never share a key, so
    # what a template renders does not depend on which was compiled first
    # (C15 owns the key)
    from . import c15 as _c15
    L.borrow(repo, rep, "R14.1", "C15", _c15._coverage,
             ("lossy-hash", "none-distinct"), minimum=0)
    L.state_rule(repo, rep)


def reachable(repo, cls_qual, entries, skip):
    ci = repo.cls(cls_qual)
    seen = {}
    todo = []
    for e in entries:
        f = repo.method(ci, e)
        if f is not None:
            todo.append(f)
    while todo:
        f = todo.pop()
        if f.qualname in seen or f.name in skip:
            continue
        seen[f.qualname] = f
        for n in ast.walk(f.node):
            if not isinstance(n, ast.Call):
                continue
            fn = n.func
            if isinstance(fn, ast.Attribute) and \
                    isinstance(fn.value, ast.Name) and fn.value.id == "self":
                owner = f.cls or ci
                m = repo.method(ci, fn.attr) or repo.method(owner, fn.attr)
                if m is not None:
                    todo.append(m)
            elif isinstance(fn, ast.Attribute) and \
                    isinstance(fn.value, ast.Call) and \
                    src(fn.value.func) == "super":
                for k in repo.mro(f.cls or ci)[1:]:
                    if fn.attr in k.methods:
                        todo.append(k.methods[fn.attr])
                        break
            elif isinstance(fn, (ast.Name, ast.Attribute)):
                r = repo.resolve_attr(f.module, fn)
                if r and r[0] == "func":
                    todo.append(r[1])
                elif r and r[0] == "class":
                    init = repo.method(r[1], "__init__")
                    if init is not None:
                        todo.append(init)
    return seen


def _effects(repo, rep):
    skip = {"cook_check", "cook", "_cook", "_compile", "read", "mtime"}
    total = {}
    for cq in (ZT + "PageTemplate", ZT + "PageTemplateFile",
               ZT + "PageTextTemplateFile"):
        total.update(reachable(repo, cq, ["render", "__call__", "include"],
                               skip))
    rep.count("render_path_functions", len(total))
    module_mutables = {}
    for m in repo.modules.values():
        for name, vals in m.assigns.items():
            v = vals[-1]
            if isinstance(v, (ast.Dict, ast.List, ast.Set)) or (
                    isinstance(v, ast.Call) and src(v.func) in (
                        "dict", "list", "set")):
                module_mutables[(m.name, name)] = v
    for q, f in sorted(total.items()):
        own_init = f.name in ("__init__", "__new__")
        bad = []
        for n in ast.walk(f.node):
            if isinstance(n, (ast.Assign, ast.AugAssign, ast.AnnAssign)):
                targets = n.targets if isinstance(n, ast.Assign) else [
                    n.target]
                for t in targets:
                    if isinstance(t, ast.Attribute) and \
                            isinstance(t.value, ast.Name) and \
                            t.value.id == "self" and not own_init:
                        bad.append("store %s (line %d)" % (src(t), n.lineno))
                    if isinstance(t, ast.Subscript) and \
                            isinstance(t.value, ast.Name) and \
                            (f.module.name, t.value.id) in module_mutables:
                        bad.append("store into module global %s" % src(t))
            elif isinstance(n, ast.Global):
                bad.append("global %s" % ", ".join(n.names))
            elif isinstance(n, ast.Call) and \
                    isinstance(n.func, ast.Attribute) and \
                    n.func.attr in MUTATORS:
                base = n.func.value
                if isinstance(base, ast.Attribute) and \
                        isinstance(base.value, ast.Name) and \
                        base.value.id == "self" and not own_init:
                    bad.append("mutates %s (line %d)" % (src(base), n.lineno))
                if isinstance(base, ast.Name) and \
                        (f.module.name, base.id) in module_mutables:
                    bad.append("mutates module global %s" % base.id)
        rep.check(not bad, "R14.1", f.qualname,
                  "%s (on the render path) stores nothing into the template "
                  "instance or module state" % f.name,
                  construct="effect:" + (bad[0].split(" (")[0] if bad
                                         else ""),
                  where=L.where(f), detail="; ".join(bad))
    rep.require_min("R14.1", 6, "functions reachable from the render entries")
    # fresh per-render state
    f = repo.func(BT + "render")
    t = L.text(f.node, body_only=True)
    for need, what in (("econtext = Scope(__kw)", "variable scope"),
                       ("rcontext = {}", "global context"),
                       ("stream = self.output_stream_factory()",
                        "output stream")):
        rep.check(need in t, "R14.1", f.qualname, "the %s is constructed "
                  "inside render()" % what, construct="fresh:" + what,
                  where=L.where(f))
    kw = f.node.args.kwarg
    rep.check(kw is not None and not f.node.args.args[1:], "R14.1",
              f.qualname, "template variables arrive as a ** dictionary (a "
              "new dict per call)", construct="kwargs", where=L.where(f))
    g = repo.func(ZT + "PageTemplate.render")
    t = L.text(g.node)
    rep.check("_kw['repeat'] = RepeatDict({})" in t and
              "if 'repeat' not in _kw:" in t, "R14.1", g.qualname,
              "a fresh repeat dictionary per render", construct="fresh:repeat",
              where=L.where(g))
    stores = [n for n in ast.walk(g.node) if isinstance(n, ast.Assign)
              and isinstance(n.targets[0], ast.Subscript)
              and src(n.targets[0].value) != "_kw"]
    rep.check(not stores, "R14.1", g.qualname, "render() writes only into "
              "its own ** dictionary", construct="kw-only",
              where=L.where(g), detail=str([src(s) for s in stores]))
    sc = repo.func("chameleon.utils.Scope.copy")
    rep.ok("R14.1", sc.qualname, "Scope(__kw) copies the keyword dictionary "
                                 "(dict constructor): the caller's dict is "
                                 "not the scope")


def render_helpers(repo):
    """The functions of the package that generated code calls at render time
    with objects of the caller: whatever is handed to ``Symbol(...)`` or to a
    slot of a code fragment by name, the default translation functions, and
    the methods of the per-render helper classes.  -> {qualname: Func}"""
    out = {}
    names = set()
    for m in repo.modules.values():
        for n in ast.walk(m.tree):
            if isinstance(n, ast.Call) and src(n.func).endswith("Symbol") \
                    and n.args and isinstance(n.args[0], ast.Name):
                names.add((m, n.args[0].id))
            elif isinstance(n, ast.Call) and src(n.func) in (
                    "template",) or (isinstance(n, ast.Call) and src(
                        n.func).startswith("emit_")):
                for k in n.keywords:
                    if isinstance(k.value, ast.Name):
                        names.add((m, k.value.id))
    for m, nm in names:
        f = repo.resolve_func(m, nm) if hasattr(repo, "resolve_func") else None
        if f is None:
            for q, fn in repo.funcs.items():
                if fn.cls is None and fn.name == nm and (
                        fn.module is m or nm in getattr(m, "imports", {})):
                    f = fn
        if f is not None:
            out[f.qualname] = f
    for q in ("chameleon.i18n.simple_translate", "chameleon.i18n.fast_translate",
              "chameleon.utils.lookup_attr", "chameleon.utils.resolve_dotted"):
        if q in repo.funcs:
            out[q] = repo.funcs[q]
    for cq in ("chameleon.tal.RepeatDict", "chameleon.tal.RepeatItem",
               "chameleon.tal.ErrorInfo", "chameleon.utils.Scope"):
        try:
            c = repo.cls(cq)
        except AnalysisError:
            continue
        for mn, mf in c.methods.items():
            out[mf.qualname] = mf
    return out


def _caller_objects(repo, rep):
    """'the argument objects passed by the caller are left unmodified': a
    render-time helper calls no mutating method on, and stores nothing into,
    an object it was handed (a parameter other than self, or something read
    off one: getattr(p, ...), p.attr, p[...])"""
    helpers = render_helpers(repo)
    if len(helpers) < 12:
        raise AnalysisError("render-time helpers vanished (%d)" % len(helpers))
    for q, f in sorted(helpers.items()):
        a = f.node.args
        params = [x.arg for x in a.posonlyargs + a.args + a.kwonlyargs]
        if f.cls is not None and params and not any(
                src(d) == "staticmethod" for d in f.node.decorator_list):
            params = params[1:]
        owned = set(params)
        for _ in range(3):
            for n in ast.walk(f.node):
                if isinstance(n, ast.Assign) and len(n.targets) == 1 and \
                        isinstance(n.targets[0], ast.Name):
                    v = n.value
                    root = None
                    if isinstance(v, ast.Call) and src(v.func) == "getattr" \
                            and v.args and isinstance(v.args[0], ast.Name):
                        root = v.args[0].id
                    elif isinstance(v, (ast.Attribute, ast.Subscript)) and \
                            isinstance(v.value, ast.Name):
                        root = v.value.id
                    elif isinstance(v, ast.Name):
                        root = v.id
                    if root in owned:
                        owned.add(n.targets[0].id)
        # a parameter that is re-bound to a fresh object first is the
        # function's own (x = list(x), x = dict(x), x = x.copy())
        fresh = set()
        for n in ast.walk(f.node):
            if isinstance(n, ast.Assign) and len(n.targets) == 1 and \
                    isinstance(n.targets[0], ast.Name) and \
                    n.targets[0].id in owned and isinstance(
                        n.value, ast.Call) and (
                            src(n.value.func) in ("list", "dict", "set",
                                                  "tuple", "sorted") or (
                                isinstance(n.value.func, ast.Attribute) and
                                n.value.func.attr == "copy")):
                fresh.add(n.targets[0].id)
        bad = []
        for n in ast.walk(f.node):
            if isinstance(n, ast.Call) and isinstance(
                    n.func, ast.Attribute) and n.func.attr in MUTATORS and \
                    isinstance(n.func.value, ast.Name) and \
                    n.func.value.id in owned - fresh:
                bad.append("%s (line %d)" % (src(n)[:50], n.lineno))
            elif isinstance(n, (ast.Assign, ast.AugAssign)):
                for t in (n.targets if isinstance(n, ast.Assign)
                          else [n.target]):
                    if isinstance(t, (ast.Subscript, ast.Attribute)) and \
                            isinstance(t.value, ast.Name) and \
                            t.value.id in owned - fresh:
                        bad.append("store %s (line %d)" % (src(t), n.lineno))
            elif isinstance(n, ast.Delete):
                for t in n.targets:
                    if isinstance(t, (ast.Subscript, ast.Attribute)) and \
                            isinstance(t.value, ast.Name) and \
                            t.value.id in owned - fresh:
                        bad.append("del %s (line %d)" % (src(t), n.lineno))
        rep.check(not bad, "R14.1", f.qualname, "%s (called by generated "
                  "code) leaves the objects it is handed unmodified" % f.name,
                  construct="caller-object:" + (
                      bad[0].split(" (line")[0] if bad else ""),
                  where=L.where(f), detail="; ".join(bad))


IMMUTABLE_CALLS = ("intern", "object", "re.compile", "functools.partial")


def _preamble(repo, rep):
    res = L.emission(repo, COMP + "Compiler.visit_Module")
    n = 0
    for w in A.walk(res.emission):
        if not isinstance(w, A.Frag) or w.tree is None:
            continue
        for st in w.tree.body:
            if isinstance(st, (ast.Import, ast.ImportFrom)):
                continue
            if isinstance(st, ast.Assign):
                n += 1
                v = st.value
                ok = False
                if isinstance(v, ast.Call):
                    fn = src(v.func)
                    ok = fn in IMMUTABLE_CALLS or (
                        isinstance(v.func, ast.Attribute) and
                        v.func.attr in ("search", "sub", "match") and
                        src(v.func.value).startswith("re.compile("))
                elif isinstance(v, ast.Attribute):
                    ok = src(v.value).startswith("re.compile(")
                elif isinstance(v, ast.Constant):
                    ok = True
                rep.check(ok, "R14.2", COMP + "Compiler.visit_Module",
                          "module-level '%s' binds an immutable object"
                          % src(st.targets[0]),
                          construct="mutable-global:" + src(st.targets[0]),
                          detail=src(st)[:80])
    rep.require_min("R14.2", 4, "preamble assignments")
    # Static(...) values are module-level objects as well (one per compiled
    # template, shared by every render and thread): a dictionary among them
    # that is handed to template expressions under a name (attrs) can be
    # changed by one render and seen by the next
    zp = repo.module("chameleon.zpt.program")
    exposed = []
    for n in ast.walk(zp.tree):
        if isinstance(n, ast.Call) and src(n.func) == "nodes.Alias" and \
                len(n.args) >= 2 and isinstance(n.args[0], ast.List):
            names_ = [e.value for e in n.args[0].elts
                      if isinstance(e, ast.Constant)]
            val = src(n.args[1])
            if any(x in val for x in ("STATIC_ATTRIBUTES", "EMPTY_DICT")):
                exposed.append((names_, val, n.lineno))
    statics_are_dicts = any(
        isinstance(n, ast.Call) and src(n.func) == "Static" and n.args and (
            "ast.Dict" in src(n.args[0]) or "repr(static_attrs)" in src(
                n.args[0])) for n in ast.walk(zp.tree))
    rep.check(not (exposed and statics_are_dicts), "R14.2",
              "chameleon.zpt.program.MacroProgram.visit_element",
              "no module-level mutable object of the compiled template is "
              "handed to template expressions (the static attribute "
              "dictionary bound to 'attrs' is one object for all renders)",
              construct="static-dict-exposed",
              detail="nodes.Alias(%s, %s) at line %s" % exposed[0]
              if exposed else "")
    # no render function stores to these names
    names = set()
    for w in A.walk(res.emission):
        if isinstance(w, A.Frag) and w.tree is not None:
            for st in w.tree.body:
                if isinstance(st, ast.Assign):
                    names.add(src(st.targets[0]))
    comp = repo.cls(COMP + "Compiler")
    for name, m in sorted(comp.methods.items()):
        if not name.startswith("visit_") or name == "visit_Module":
            continue
        r = L.emission(repo, m.qualname)
        for w in A.walk(r.emission):
            if isinstance(w, A.Frag) and w.tree is not None:
                for node in ast.walk(w.tree):
                    if isinstance(node, ast.Name) and \
                            isinstance(node.ctx, ast.Store) and \
                            node.id in names and node.id not in w.slots:
                        rep.bad("R14.2", m.qualname, "render functions do "
                                "not rebind module-level names",
                                "rebinds:" + node.id, where=L.where(m))
    rep.ok("R14.2", comp.qualname, "no emitter fragment stores to a "
                                   "preamble name (they are read-only)")


SET_ITER_OK = {
    "self._slots": "one independent 'pop the filler' statement per slot "
                   "name: the statements commute",
}


SET_ITER_REVIEWED = {
    ("chameleon.compiler.Compiler.visit_Macro", "self._slots"):
        "one independent 'pop the filler' statement per slot name: the "
        "statements commute",
}


def _set_iteration(repo, rep):
    """G-SETITER over the whole package: str hashes differ between
    processes, so an order-observing iteration over a set makes compiled
    code or output depend on PYTHONHASHSEED."""
    sites = L.set_iteration_sites(repo)
    seen = set()
    for f, lineno, kind, text in sites:
        key = (f.qualname, text)
        seen.add(key)
        rep.check(key in SET_ITER_REVIEWED, "R14.3", f.qualname,
                  "%s over the set %s is order-free (%s)" % (
                      kind, text, SET_ITER_REVIEWED.get(key, "not reviewed: "
                      "iteration order of a set of strings differs between "
                      "processes")),
                  construct="set-order:" + text, where=L.where(f, lineno))
    rep.count("set_iteration_sites", len(sites))
    if not sites:
        raise AnalysisError("set iteration scan found no site at all (the "
                            "reviewed ones vanished)")
    # the same inside the code fragments that are pasted into the render
    # functions: a loop of generated code over a set (a set display, set(),
    # the difference / intersection / union of key views) writes its output
    # in hash order
    import textwrap
    n_frag = 0
    bad = []

    def setlike(e):
        if isinstance(e, (ast.Set, ast.SetComp)):
            return True
        if isinstance(e, ast.Call) and src(e.func) in ("set", "frozenset"):
            return True
        if isinstance(e, ast.BinOp) and isinstance(
                e.op, (ast.Sub, ast.BitAnd, ast.BitOr, ast.BitXor)):
            return any(isinstance(x, ast.Call) and isinstance(
                x.func, ast.Attribute) and x.func.attr in ("keys", "items")
                or setlike(x) for x in (e.left, e.right))
        return False
    for q, fn in sorted(repo.funcs.items()):
        m = fn.module
        for c in ast.walk(fn.node):
            if not (isinstance(c, ast.Call) and src(c.func) == "template"
                    and c.args):
                continue
            try:
                text = repo.fold(c.args[0], m)
            except Exception:
                continue
            if not isinstance(text, str):
                continue
            try:
                tree = ast.parse(textwrap.dedent(text))
            except SyntaxError:
                continue
            n_frag += 1
            for x in ast.walk(tree):
                its = []
                if isinstance(x, ast.For):
                    its.append(x.iter)
                elif isinstance(x, ast.comprehension):
                    its.append(x.iter)
                for it in its:
                    if setlike(it):
                        bad.append((fn, c.lineno, src(it)))
    # fragments assembled from pieces (concatenation, indent(...)) are
    # reached through the emitters' abstract interpretation
    comp_ = repo.cls(COMP + "Compiler")
    for name_, m_ in sorted(comp_.methods.items()):
        if not name_.startswith("visit_"):
            continue
        for w in A.walk(L.emission(repo, m_.qualname).emission):
            if isinstance(w, A.Frag) and getattr(w, "tree", None) is not None:
                n_frag += 1
                for x in ast.walk(w.tree):
                    its = []
                    if isinstance(x, ast.For):
                        its.append(x.iter)
                    elif isinstance(x, ast.comprehension):
                        its.append(x.iter)
                    for it in its:
                        if setlike(it) and not any(
                                b_[2] == src(it) and b_[0] is m_
                                for b_ in bad):
                            bad.append((m_, w.lineno if hasattr(
                                w, "lineno") else m_.node.lineno, src(it)))
    if n_frag < 40:
        raise AnalysisError("only %d code fragments found" % n_frag)
    rep.check(not bad, "R14.3", COMP + "Compiler", "no loop of generated "
              "code runs over a set (%d fragments scanned): what it writes "
              "would come out in hash order" % n_frag,
              construct="fragment-set-order",
              where=L.where(bad[0][0], bad[0][1]) if bad else "",
              detail="; ".join("%s: for ... in %s" % (f_.name, t_)
                               for f_, _, t_ in bad[:3]))


def _identifiers(repo, rep):
    _set_iteration(repo, rep)
    comp = repo.cls(COMP + "Compiler")
    n_funcs = 0
    # which attributes hold sets / lists of sets is read off the source
    set_attrs = L._set_attrs(repo)
    los = L.lists_of_sets(repo).get(comp.qualname, set())
    for name, m in sorted(comp.methods.items()):
        if not name.startswith("visit_"):
            continue
        res = L.emission(repo, m.qualname)
        n_funcs += 1
        L.g_live(rep, "R14.3", m, res)
        # set iteration
        for w in A.walk(res.emission):
            if isinstance(w, A.Loop):
                it = A.show(w.iter, limit=6)
                if it.startswith("sorted("):
                    continue        # a fixed order
                if it.startswith("set(") or it.startswith("frozenset(") \
                        or any(it == "self." + a_ for a_ in set_attrs) or \
                        any(it.startswith("getitem(self.%s," % a_)
                            for a_ in los):
                    ok = it in SET_ITER_OK
                    rep.check(ok, "R14.3", m.qualname,
                              "iteration over the set %s emits commuting "
                              "statements only (%s)" % (
                                  it, SET_ITER_OK.get(it, "not reviewed")),
                              construct="set-iteration:" + it,
                              where=L.where(m, w.lineno))
    rep.count("emitters_swept", n_funcs)
    rep.require_min("R14.3", 8, "generated locals living across a child "
                                "emission, all emitters")
    # identifier(): suffix or id(prefix)
    f = repo.func(COMP + "identifier")
    t = src(f.node.body[0])
    class _F:
        def __init__(self, args):
            self.args = args
    fm = [_F(a_) for t_, a_, n_ in L.fmt_sites(f.node)
          if t_ == "__%s_%s" and len(a_) == 2]

    def unwrap(e):
        while isinstance(e, ast.Call) and src(e.func) == "mangle" and \
                len(e.args) == 1:
            e = e.args[0]
        return src(e)
    rep.check(len(fm) == 1 and unwrap(fm[0].args[0]) == "prefix" and
              src(fm[0].args[1]) == "mangle(suffix or id(prefix))",
              "R14.3", f.qualname, "identifier(prefix, suffix) embeds "
              "both parts", construct="identifier", where=L.where(f),
              detail=t)
    g = repo.func(COMP + "mangle")
    t = src(g.node.body[0])
    rep.check("RE_MANGLE.sub('_', str(string))" in t, "R14.3", g.qualname,
              "mangle maps to identifier characters deterministically",
              construct="mangle", where=L.where(g))


def _key_transforms(expr, argnames, mapping=None):
    """parts of a cache-key expression that are more than a regrouping of
    the argument objects -> [source text]; ``mapping`` names the keyword
    dictionary: it enters the key through .items() (iterating it gives the
    names without the values)"""
    bad = []
    GROUP = ("tuple", "sorted", "frozenset", "list")

    def ident_elt(elt, targets):
        names = {x.id for t in targets for x in ast.walk(t)
                 if isinstance(x, ast.Name)}
        if isinstance(elt, ast.Name):
            return elt.id in names
        if isinstance(elt, ast.Tuple):
            return all(ident_elt(e, targets) for e in elt.elts)
        return False

    def rec(e, canon=False):
        if isinstance(e, ast.Name):
            if mapping is not None and e.id == mapping:
                bad.append("%s without .items(): the names only" % e.id)
            return
        if isinstance(e, ast.BinOp) and isinstance(e.op, ast.Add):
            rec(e.left, canon)
            rec(e.right, canon)
            return
        if isinstance(e, (ast.Tuple, ast.List)):
            for x in e.elts:
                rec(x.value if isinstance(x, ast.Starred) else x, canon)
            return
        if isinstance(e, ast.Call) and isinstance(e.func, ast.Name) and \
                e.func.id in GROUP and len(e.args) == 1 and not e.keywords:
            rec(e.args[0], canon or e.func.id in ("sorted", "frozenset"))
            return
        if isinstance(e, ast.Call) and isinstance(e.func, ast.Attribute) and \
                e.func.attr == "items" and isinstance(e.func.value, ast.Name) \
                and e.func.value.id in argnames and not e.args:
            if not canon:
                # load(a=1, b=2) and load(b=2, a=1) are one call
                bad.append("%s in the order the keywords were written "
                           "(not sorted)" % src(e))
            return
        if isinstance(e, (ast.GeneratorExp, ast.ListComp)) and \
                len(e.generators) == 1 and not e.generators[0].ifs and \
                ident_elt(e.elt, [e.generators[0].target]):
            rec(e.generators[0].iter, canon)
            return
        bad.append(src(e)[:60])
    rec(expr)
    return bad


def _publish(repo, rep):
    f = repo.func(BT + "cook")
    order = {}
    for n in ast.walk(f.node):
        if isinstance(n, ast.Call) and src(n.func) == "setattr" and \
                "function" in src(n):
            order.setdefault("publish", n.lineno)
        if isinstance(n, ast.Assign) and src(n.targets[0]) == "self._cooked" \
                and src(n.value) == "True":
            order.setdefault("flag", n.lineno)
    rep.check("publish" in order and "flag" in order and
              order["publish"] < order["flag"], "R14.4", f.qualname,
              "compiled functions are visible before the instance is flagged "
              "as compiled (a concurrent reader of the flag never sees a "
              "missing _render)", construct="publish-before-flag",
              where=L.where(f), detail=str(order))
    # nobody else may raise the flag: every 'self._cooked = True' in the
    # package must follow the publication in the same function
    for m in repo.modules.values():
        for n in ast.walk(m.tree):
            if isinstance(n, ast.Assign) and isinstance(
                    n.targets[0], ast.Attribute) and \
                    n.targets[0].attr == "_cooked" and \
                    isinstance(n.value, ast.Constant) and \
                    n.value.value is True:
                fn = n
                while fn is not None and not isinstance(fn, ast.FunctionDef):
                    fn = getattr(fn, "_parent", None)
                pub = [x.lineno for x in ast.walk(fn)
                       if isinstance(x, ast.Call) and src(x.func) == "setattr"
                       and "function" in src(x)] if fn is not None else []
                rep.check(bool(pub) and min(pub) < n.lineno, "R14.4",
                          "%s.%s" % (m.name, fn.name if fn else "?"),
                          "the compiled flag is raised only after the "
                          "compiled functions were published (line %d)"
                          % n.lineno, construct="early-flag:%s" % (
                              fn.name if fn else "?"),
                          where="%s:%d" % (m.relpath, n.lineno))
    # the instance dictionary is shared with every other thread that uses
    # the template: walking it directly races with a concurrent attribute
    # assignment ("dictionary changed size during iteration"); only a
    # snapshot (list(...), tuple(...), .copy()) may be iterated
    live = []
    for q, fn in sorted(repo.funcs.items()):
        if not q.startswith(("chameleon.template.", "chameleon.zpt.template.",
                             "chameleon.loader.")):
            continue
        for n in ast.walk(fn.node):
            its = []
            if isinstance(n, ast.For):
                its.append(n.iter)
            elif isinstance(n, ast.comprehension):
                its.append(n.iter)
            for it in its:
                t_ = src(it).replace(" ", "")
                if t_.endswith(".__dict__") or t_.endswith(
                        ".__dict__.items()") or t_.endswith(
                            ".__dict__.keys()") or t_.endswith(
                                ".__dict__.values()"):
                    live.append((fn, n.lineno if hasattr(n, "lineno")
                                 else it.lineno, src(it)))
    rep.check(not live, "R14.4", "chameleon.template", "no loop or "
              "comprehension walks an instance dictionary directly (a "
              "snapshot is taken first)", construct="dict-walked-live",
              where=(L.where(live[0][0], live[0][1]) if live else ""),
              detail="; ".join("%s: %s" % (f_.qualname, t_)
                               for f_, _, t_ in live[:3]))
    # a reader never proceeds past cook_check while the flag is down
    from .c16 import cook_check_never_returns_uncooked
    okr, detail = cook_check_never_returns_uncooked(repo)
    cc = repo.func("chameleon.template.BaseTemplateFile.cook_check")
    rep.check(okr, "R14.4", cc.qualname, "cook_check lets a caller through "
              "only if it saw the compiled flag up or compiled itself on "
              "that path -- also when the file is unchanged (a second "
              "thread arriving while the first compiles must not render "
              "with missing entry points)", construct="no-return-uncooked",
              where=L.where(cc), detail=detail)
    from .c16 import flag_down_before_stamp
    oks, n_, detail = flag_down_before_stamp(repo)
    rep.check(oks, "R14.4", cc.qualname, "cook_check lowers the compiled "
              "flag before it remembers the new modification time (a thread "
              "arriving between the two stores must not see 'unchanged and "
              "compiled' for a changed file)",
              construct="flag-down-before-stamp", where=L.where(cc),
              detail=detail or "%d store(s)" % n_)
    # a published entry point is never taken away again: removals come
    # after the publication and spare the names just published (another
    # thread may already be rendering through them)
    pubs = [x.lineno for x in ast.walk(f.node) if isinstance(x, ast.Call)
            and src(x.func) == "setattr" and "function" in src(x)]
    rems = []
    for x in ast.walk(f.node):
        if (isinstance(x, ast.Call) and (
                src(x.func) == "delattr" or (
                    isinstance(x.func, ast.Attribute) and
                    x.func.attr in ("pop", "clear", "popitem") and
                    "__dict__" in src(x.func)))) or (
                        isinstance(x, ast.Delete) and "__dict__" in src(x)):
            rems.append(x)
    for x in rems:
        # the loop / comprehension that feeds the removal
        a = x
        filt = ""
        while a is not None and a is not f.node:
            if isinstance(a, ast.For):
                filt += " " + src(a.iter)
            a = getattr(a, "_parent", None)
        spared = "not in functions" in filt
        rep.check(bool(pubs) and min(pubs) < x.lineno and spared, "R14.4",
                  f.qualname, "an entry point is removed only after the new "
                  "ones are published, and never one of the new names "
                  "(a concurrent render keeps finding _render)",
                  construct="published-stays", where=L.where(f, x.lineno),
                  detail="removal at line %d fed by '%s'; publication at %s"
                         % (x.lineno, filt.strip()[:80], pubs))
    # the shared loader's registry distinguishes everything the load depends
    # on: the key is the whole positional argument tuple
    c = repo.func("chameleon.loader.cache")
    inner = [n for n in ast.walk(c.node) if isinstance(n, ast.FunctionDef)
             and n is not c.node]
    okk = False
    detail = ""
    if inner and inner[0].args.vararg is not None:
        va = inner[0].args.vararg.arg
        npos = len(inner[0].args.args)
        gets = [n for n in ast.walk(inner[0]) if isinstance(n, ast.Call)
                and src(n.func) == "self.registry.get"]
        sets = [t for n in ast.walk(inner[0]) if isinstance(n, ast.Assign)
                for t in n.targets if isinstance(t, ast.Subscript)
                and src(t.value) == "self.registry"]
        keys = [src(g.args[0]) for g in gets if g.args] + \
            [src(t.slice) for t in sets]
        okk = bool(gets) and bool(sets) and npos == 1 and \
            len(set(keys)) == 1
        kw = inner[0].args.kwarg.arg if inner[0].args.kwarg else None
        key_expr = None
        for g_ in gets:
            if g_.args:
                key_expr = L.inline_locals(inner[0], g_.args[0])
        kt = src(key_expr) if key_expr is not None else ""
        covers_pos = va in [n.id for n in ast.walk(key_expr)
                            if isinstance(n, ast.Name)] if key_expr is not \
            None else False
        covers_kw = kw is None or (key_expr is not None and kw in [
            n.id for n in ast.walk(key_expr) if isinstance(n, ast.Name)])
        okk = okk and covers_pos and covers_kw
        detail = "key %s; vararg %s, kwarg %s" % (kt[:80], va, kw)
        # ... by the argument objects themselves: the key is put together
        # from the argument tuple and the keyword items with nothing but
        # tuple / sorted / frozenset / + around them.  (A class that enters
        # the key by its name, repr or type is shared by every other class
        # of that name.)
        changed = _key_transforms(key_expr, {va, kw}, kw) \
            if key_expr is not None else ["no key"]
        if changed:
            okk = False
            detail = "the key converts its parts: %s" % ", ".join(changed)[:160]
    rep.check(okk, "R14.4", c.qualname, "the loader registry is keyed by "
              "everything the load is called with -- the positional "
              "arguments and the keyword arguments (bind() passes the "
              "template class by keyword): a shared loader never hands out "
              "a template built for other arguments",
              construct="registry-key", where=L.where(c), detail=detail)
    # constructors do not mutate argument objects of the caller
    from .c16 import fresh_search_path
    okf, detail = fresh_search_path(repo)
    pf = repo.func(ZT + "PageTemplateFile.__init__")
    rep.check(okf, "R14.4", pf.qualname, "the search path that gets the "
              "template's directory prepended is a private copy: the "
              "caller's list (shared with the loader) is left unmodified",
              construct="caller-list-mutated", where=L.where(pf),
              detail=detail)
    t = L.text(f.node, body_only=True)
    rep.check("builtins_dict = self.builtins.copy()" in t and
              "builtins_dict.update(self.extra_builtins)" in t, "R14.4",
              f.qualname, "class-level builtins are copied before they are "
              "extended", construct="builtins-copy", where=L.where(f))
    # class-level mutable containers mutated through self
    n = 0
    for ci in repo.classes.values():
        mut = {a for a, v in ci.attrs.items()
               if isinstance(v, (ast.Dict, ast.List, ast.Set))}
        if not mut:
            continue
        init = ci.methods.get("__init__")
        rebound = set()
        if init is not None:
            for x in ast.walk(init.node):
                if isinstance(x, ast.Assign):
                    for t_ in x.targets:
                        if isinstance(t_, ast.Attribute) and \
                                src(t_.value) == "self":
                            rebound.add(t_.attr)
        for m in ci.methods.values():
            for x in ast.walk(m.node):
                tgt = None
                if isinstance(x, ast.Call) and \
                        isinstance(x.func, ast.Attribute) and \
                        x.func.attr in MUTATORS and \
                        isinstance(x.func.value, ast.Attribute) and \
                        src(x.func.value.value) == "self":
                    tgt = x.func.value.attr
                elif isinstance(x, ast.Assign) and \
                        isinstance(x.targets[0], ast.Subscript) and \
                        isinstance(x.targets[0].value, ast.Attribute) and \
                        src(x.targets[0].value.value) == "self":
                    tgt = x.targets[0].value.attr
                if tgt in mut and tgt not in rebound:
                    n += 1
                    rep.bad("R14.4", m.qualname, "a class-level container "
                            "is not mutated through an instance (it would be "
                            "shared by all templates and threads)",
                            "shared-container:%s.%s" % (ci.name, tgt),
                            src(x)[:80], L.where(m, x.lineno))
    rep.ok("R14.4", "chameleon.*", "class-level containers are read-only or "
                                   "rebound per instance (%d classes "
                                   "scanned)" % len(repo.classes))


def _locks(repo, rep):
    for q in ("chameleon.loader.ModuleLoader.build",
              "chameleon.loader.ModuleLoader._load"):
        f = repo.func(q)
        body = f.node.body
        ok = len(body) >= 2 and src(body[0]) == "acquire_lock()" and \
            isinstance(body[1], ast.Try) and body[1].finalbody and \
            src(body[1].finalbody[0]) == "release_lock()" and \
            len(body) <= 3
        rep.check(ok, "R14.5", f.qualname, "everything between acquire_lock "
                  "and release_lock is inside try/finally",
                  construct="lock", where=L.where(f))
    m = repo.module("chameleon.loader")
    t = L.text(m.tree, body_only=True)
    rep.check("lock = RLock()" in t and "acquire_lock = lock.acquire" in t and
              "release_lock = lock.release" in t, "R14.5", "chameleon.loader",
              "one process-wide re-entrant lock", construct="rlock")
    comp = repo.cls(COMP + "Compiler")
    used = any("self.lock" in src(n) or "Compiler.lock" in src(n)
               for mm in repo.modules.values() for n in ast.walk(mm.tree)
               if isinstance(n, ast.Attribute))
    if "lock" in comp.attrs and not used:
        rep.note("advisory: Compiler.lock is defined but never acquired")
