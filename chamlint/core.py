"""E1 source model + report/evidence/known-findings plumbing.

The source model parses every module of the package under analysis once
(``ast`` only -- nothing is imported from /repo) and offers:

* qualified-name anchors (``chameleon.compiler.Compiler.visit_OnError``)
  with a fallback search by simple name; a vanished anchor raises
  ``AnalysisError`` (exit 2), never a silent pass;
* import resolution, class tables and a C3 MRO;
* constant folding of module-level tables (literals, tuples, sets,
  ``frozenset``, ``+``, ``%``, ``str.format``, ``codecs.BOM_*``).
"""
from __future__ import annotations

import ast
import codecs
import hashlib
import json
import os
import sys
import time

REPO = os.environ.get("CHAMLINT_REPO", "/repo")
VERIF = os.path.dirname(os.path.dirname(os.path.abspath(__file__)))
PKG = "chameleon"
EXCLUDE = ("tests", "benchmark.py")


class AnalysisError(Exception):
    """The analyser cannot decide (anchor vanished, construct not understood)."""


class NotConst(Exception):
    pass


# ---------------------------------------------------------------------------
# source model


class Module:
    def __init__(self, name, path, source):
        self.name = name
        self.path = path
        self.source = source
        self.tree = ast.parse(source, filename=path)
        # locals are renamed to the reference naming (see alpha.py); the
        # tree stays equivalent to the source
        from . import alpha
        alpha.pre_normalise(self.tree)
        self.renamed = alpha.normalise(self.tree, name)
        alpha.order_compares(self.tree)
        self.relpath = os.path.relpath(path, REPO)
        for parent in ast.walk(self.tree):
            for child in ast.iter_child_nodes(parent):
                child._parent = parent
        self.imports = {}  # local name -> dotted target
        self.functions = {}
        self.classes = {}
        self.assigns = {}  # name -> list of value nodes (module level, in order)
        self._index()

    def _index(self):
        def scan(body):
            for st in body:
                if isinstance(st, ast.Import):
                    for a in st.names:
                        self.imports[a.asname or a.name.split(".")[0]] = (
                            a.name if a.asname else a.name.split(".")[0])
                elif isinstance(st, ast.ImportFrom):
                    mod = st.module or ""
                    if st.level:
                        base = self.name.split(".")
                        base = base[:len(base) - st.level]
                        mod = ".".join(base + ([mod] if mod else []))
                    for a in st.names:
                        self.imports[a.asname or a.name] = mod + "." + a.name
                elif isinstance(st, ast.FunctionDef):
                    self.functions[st.name] = st
                elif isinstance(st, ast.ClassDef):
                    self.classes[st.name] = st
                elif isinstance(st, ast.Assign):
                    for t in st.targets:
                        if isinstance(t, ast.Name):
                            self.assigns.setdefault(t.id, []).append(st.value)
                elif isinstance(st, ast.AnnAssign) and st.value is not None:
                    if isinstance(st.target, ast.Name):
                        self.assigns.setdefault(
                            st.target.id, []).append(st.value)
                elif isinstance(st, (ast.If, ast.Try)):
                    # module-level conditionals (TYPE_CHECKING, version checks)
                    if isinstance(st, ast.If):
                        t = ast.unparse(st.test)
                        if "TYPE_CHECKING" in t:
                            continue
                        scan(st.body)
                        scan(st.orelse)
                    else:
                        scan(st.body)
                        scan(st.orelse)
        scan(self.tree.body)


class Func:
    def __init__(self, module, node, cls=None):
        self.module = module
        self.node = node
        self.cls = cls
        self.name = node.name
        self.qualname = ".".join(
            [module.name] + ([cls.name] if cls else []) + [node.name])

    @property
    def where(self):
        return "%s:%d" % (self.module.relpath, self.node.lineno)

    def __repr__(self):
        return "<Func %s>" % self.qualname


class Class:
    def __init__(self, module, node):
        self.module = module
        self.node = node
        self.name = node.name
        self.qualname = module.name + "." + node.name
        self.methods = {}
        self.attrs = {}
        for st in node.body:
            if isinstance(st, ast.FunctionDef):
                self.methods[st.name] = Func(module, st, self)
            elif isinstance(st, ast.Assign):
                for t in st.targets:
                    if isinstance(t, ast.Name):
                        self.attrs[t.id] = st.value
            elif isinstance(st, ast.AnnAssign) and st.value is not None:
                if isinstance(st.target, ast.Name):
                    self.attrs[st.target.id] = st.value
            elif isinstance(st, ast.If):
                # class-level version conditionals: take every branch
                for sub in ast.walk(st):
                    if isinstance(sub, ast.Assign):
                        for t in sub.targets:
                            if isinstance(t, ast.Name):
                                self.attrs.setdefault(t.id, sub.value)
                    elif isinstance(sub, ast.FunctionDef) and \
                            "TYPE_CHECKING" not in ast.unparse(st.test):
                        self.methods.setdefault(
                            sub.name, Func(module, sub, self))

    def __repr__(self):
        return "<Class %s>" % self.qualname


class Repo:
    def __init__(self, root=None):
        self.root = root or REPO
        self.pkgdir = os.path.join(self.root, "src", PKG)
        if not os.path.isdir(self.pkgdir):
            raise AnalysisError("package directory missing: %s" % self.pkgdir)
        self.modules = {}
        self.digest = hashlib.sha256()
        for dirpath, dirnames, filenames in os.walk(self.pkgdir):
            dirnames[:] = sorted(d for d in dirnames
                                 if d not in EXCLUDE and d != "__pycache__")
            for fn in sorted(filenames):
                if not fn.endswith(".py") or fn in EXCLUDE:
                    continue
                path = os.path.join(dirpath, fn)
                rel = os.path.relpath(path, os.path.join(self.root, "src"))
                name = rel[:-3].replace(os.sep, ".")
                if name.endswith(".__init__"):
                    name = name[:-9]
                with open(path, encoding="utf-8") as f:
                    src = f.read()
                self.digest.update(src.encode("utf-8"))
                try:
                    self.modules[name] = Module(name, path, src)
                except SyntaxError as exc:
                    raise AnalysisError("cannot parse %s: %s" % (path, exc))
        self.classes = {}
        self.funcs = {}
        for m in self.modules.values():
            for c in m.classes.values():
                ci = Class(m, c)
                self.classes[ci.qualname] = ci
                for f in ci.methods.values():
                    self.funcs[f.qualname] = f
            for f in m.functions.values():
                fi = Func(m, f)
                self.funcs[fi.qualname] = fi

    # -- anchors ----------------------------------------------------------
    def module(self, name):
        try:
            return self.modules[name]
        except KeyError:
            raise AnalysisError("module vanished: %s" % name)

    def func(self, qualname):
        f = self.funcs.get(qualname)
        if f is not None:
            return f
        # method inherited through the MRO?
        parts = qualname.rsplit(".", 2)
        if len(parts) == 3:
            ci = self.classes.get(parts[0] + "." + parts[1])
            if ci is not None:
                for k in self.mro(ci):
                    if parts[2] in k.methods:
                        return k.methods[parts[2]]
        # fall back: unique simple (Class.)name anywhere in the package
        tail = qualname.split(".")
        cands = [f for q, f in self.funcs.items()
                 if q.split(".")[-1] == tail[-1] and
                 (f.cls is None or f.cls.name == tail[-2] or
                  tail[-2] not in {c.name for c in self.classes.values()})]
        if len(tail) >= 2 and any(
                c.name == tail[-2] for c in self.classes.values()):
            cands = [f for f in cands if f.cls and f.cls.name == tail[-2]]
        if len(cands) == 1:
            return cands[0]
        raise AnalysisError("anchor vanished: %s (%d candidates)" %
                            (qualname, len(cands)))

    def cls(self, qualname):
        c = self.classes.get(qualname)
        if c is not None:
            return c
        simple = qualname.split(".")[-1]
        cands = [c for c in self.classes.values() if c.name == simple]
        if len(cands) == 1:
            return cands[0]
        raise AnalysisError("class anchor vanished: %s" % qualname)

    def has_func(self, qualname):
        try:
            self.func(qualname)
            return True
        except AnalysisError:
            return False

    # -- resolution -------------------------------------------------------
    def resolve(self, module, name):
        """Resolve a simple name used in ``module`` to
        ('func', Func) / ('class', Class) / ('const', expr-node, Module) /
        ('module', Module) / ('ext', dotted) / None."""
        seen = set()
        while True:
            key = (module.name, name)
            if key in seen:
                return None
            seen.add(key)
            if name in module.functions:
                return ("func", self.funcs[module.name + "." + name])
            if name in module.classes:
                return ("class", self.classes[module.name + "." + name])
            if name in module.assigns:
                return ("const", module.assigns[name][-1], module)
            tgt = module.imports.get(name)
            if tgt is None:
                return None
            if tgt in self.modules:
                return ("module", self.modules[tgt])
            modname, _, attr = tgt.rpartition(".")
            if modname in self.modules:
                module, name = self.modules[modname], attr
                continue
            return ("ext", tgt)

    def resolve_attr(self, module, expr):
        """Resolve ``a.b`` where ``a`` is an imported module of the package."""
        if isinstance(expr, ast.Name):
            return self.resolve(module, expr.id)
        if isinstance(expr, ast.Attribute) and isinstance(expr.value, ast.Name):
            r = self.resolve(module, expr.value.id)
            if r and r[0] == "module":
                return self.resolve(r[1], expr.attr)
            if r and r[0] == "ext":
                return ("ext", r[1] + "." + expr.attr)
            if r and r[0] == "class":
                ci = r[1]
                for k in self.mro(ci):
                    if expr.attr in k.methods:
                        return ("func", k.methods[expr.attr])
                    if expr.attr in k.attrs:
                        return ("const", k.attrs[expr.attr], k.module)
        return None

    def bases(self, ci):
        out = []
        for b in ci.node.bases:
            r = self.resolve_attr(ci.module, b)
            if r and r[0] == "class":
                out.append(r[1])
        return out

    def mro(self, ci):
        def merge(seqs):
            res = []
            seqs = [list(s) for s in seqs if s]
            while seqs:
                for s in seqs:
                    cand = s[0]
                    if not any(cand in t[1:] for t in seqs):
                        break
                else:
                    raise AnalysisError("inconsistent MRO for %s" % ci.qualname)
                res.append(cand)
                seqs = [[x for x in s if x is not cand] for s in seqs]
                seqs = [s for s in seqs if s]
            return res
        bases = self.bases(ci)
        return [ci] + merge([self.mro(b) for b in bases] + [bases])

    def method(self, ci, name):
        for k in self.mro(ci):
            if name in k.methods:
                return k.methods[name]
        return None

    def class_attr(self, ci, name):
        for k in self.mro(ci):
            if name in k.attrs:
                return k.attrs[name], k
        return None, None

    def subclasses(self, ci):
        return [c for c in self.classes.values()
                if c is not ci and ci in self.mro(c)]

    # -- constant folding -------------------------------------------------
    def fold(self, node, module, env=None, depth=0):
        """Fold ``node`` to a Python value or raise NotConst."""
        if depth > 12:
            raise NotConst("depth")
        env = env or {}
        f = lambda n: self.fold(n, module, env, depth + 1)  # noqa: E731
        if isinstance(node, ast.Constant):
            return node.value
        if isinstance(node, ast.Tuple):
            return tuple(f(e) for e in node.elts)
        if isinstance(node, ast.List):
            return [f(e) for e in node.elts]
        if isinstance(node, ast.Set):
            return frozenset(f(e) for e in node.elts)
        if isinstance(node, ast.Dict):
            return {f(k): f(v) for k, v in zip(node.keys, node.values)}
        if isinstance(node, ast.JoinedStr):
            out = ""
            for v in node.values:
                if isinstance(v, ast.Constant):
                    out += v.value
                else:
                    out += str(f(v.value))
            return out
        if isinstance(node, ast.Name):
            if node.id in env:
                return env[node.id]
            r = self.resolve(module, node.id)
            if r and r[0] == "const":
                return self.fold(r[1], r[2], None, depth + 1)
            raise NotConst(node.id)
        if isinstance(node, ast.Attribute):
            r = self.resolve_attr(module, node)
            if r and r[0] == "const":
                return self.fold(r[1], r[2], None, depth + 1)
            if r and r[0] == "ext":
                if r[1].startswith("codecs.BOM"):
                    return getattr(codecs, r[1].split(".", 1)[1])
            raise NotConst(ast.unparse(node))
        if isinstance(node, ast.BinOp):
            l, r_ = f(node.left), f(node.right)
            try:
                if isinstance(node.op, ast.Add):
                    return l + r_
                if isinstance(node.op, ast.Mod):
                    return l % r_
                if isinstance(node.op, ast.BitOr):
                    return l | r_
                if isinstance(node.op, ast.Mult):
                    return l * r_
            except Exception as exc:
                raise NotConst(str(exc))
            raise NotConst("binop")
        if isinstance(node, ast.Call):
            fn = node.func
            if isinstance(fn, ast.Name) and fn.id in (
                    "frozenset", "set", "tuple", "list") and not node.keywords:
                if not node.args:
                    return {"frozenset": frozenset(), "set": frozenset(),
                            "tuple": (), "list": []}[fn.id]
                v = f(node.args[0])
                return (frozenset(v) if fn.id in ("frozenset", "set")
                        else tuple(v) if fn.id == "tuple" else list(v))
            if isinstance(fn, ast.Attribute) and fn.attr == "format":
                s = f(fn.value)
                try:
                    return s.format(*[f(a) for a in node.args],
                                    **{k.arg: f(k.value)
                                       for k in node.keywords})
                except Exception as exc:
                    raise NotConst(str(exc))
            if isinstance(fn, ast.Attribute) and fn.attr == "copy" \
                    and not node.args:
                v = f(fn.value)
                return dict(v) if isinstance(v, dict) else v
            if isinstance(fn, ast.Attribute) and fn.attr == "compile" and \
                    isinstance(fn.value, ast.Name) and fn.value.id == "re":
                flags = 0
                import re as _re
                for a in node.args[1:]:
                    flags |= self._fold_reflags(a)
                for k in node.keywords:
                    if k.arg == "flags":
                        flags |= self._fold_reflags(k.value)
                return RegexConst(f(node.args[0]), flags)
            raise NotConst(ast.unparse(node)[:40])
        raise NotConst(type(node).__name__)

    def _fold_reflags(self, node):
        import re as _re
        if isinstance(node, ast.BinOp) and isinstance(node.op, ast.BitOr):
            return self._fold_reflags(node.left) | self._fold_reflags(node.right)
        if isinstance(node, ast.Attribute) and isinstance(node.value, ast.Name) \
                and node.value.id == "re":
            return int(getattr(_re, node.attr))
        raise NotConst("re flag")

    def const(self, modname, name):
        m = self.module(modname)
        if name not in m.assigns:
            raise AnalysisError("constant vanished: %s.%s" % (modname, name))
        try:
            return self.fold(m.assigns[name][-1], m)
        except NotConst as exc:
            raise AnalysisError("cannot fold %s.%s: %s" % (modname, name, exc))


class RegexConst:
    def __init__(self, pattern, flags=0):
        self.pattern = pattern
        self.flags = flags

    def __repr__(self):
        return "re(%r, %d)" % (self.pattern, self.flags)


def clone_ast(node):
    """Deep copy of a syntax tree that does not follow the analyser's own
    back links (``_parent`` ...): ``copy.deepcopy`` would copy the whole
    module through them."""
    if isinstance(node, list):
        return [clone_ast(x) for x in node]
    if not isinstance(node, ast.AST):
        return node
    new = node.__class__()
    for f in node._fields:
        if hasattr(node, f):
            setattr(new, f, clone_ast(getattr(node, f)))
    for a in node._attributes:
        if hasattr(node, a):
            setattr(new, a, getattr(node, a))
    return new


def src(node, limit=4000):
    try:
        s = ast.unparse(node)
    except Exception:
        s = repr(node)
    s = " ".join(s.split())
    return s if len(s) <= limit else s[:limit - 3] + "..."


def calls_in(node):
    for n in ast.walk(node):
        if isinstance(n, ast.Call):
            yield n


def call_name(call):
    f = call.func
    if isinstance(f, ast.Name):
        return f.id
    if isinstance(f, ast.Attribute):
        return f.attr
    return None


def dotted(node):
    if isinstance(node, ast.Name):
        return node.id
    if isinstance(node, ast.Attribute):
        b = dotted(node.value)
        return b + "." + node.attr if b else None
    return None


# ---------------------------------------------------------------------------
# report / evidence / known findings


class Report:
    def __init__(self, prop, tier="quick", title=""):
        self.prop = prop
        self.tier = tier
        self.title = title
        self.t0 = time.time()
        self.obligations = []   # dicts
        self.notes = []
        self.analysed = {}
        self.assumptions = []
        self.explanation = ""
        self.rules = {}
        self.selftest = None
        self.minimums = {}      # rule -> (min, reason)

    # -- recording -------------------------------------------------------
    def rule(self, rid, text):
        self.rules[rid] = text

    def ok(self, rule, site, obligation, nontrivial=True):
        self.obligations.append(dict(
            rule=rule, site=site, obligation=obligation, status="discharged",
            nontrivial=nontrivial))

    def bad(self, rule, site, obligation, construct, detail="", where=""):
        self.obligations.append(dict(
            rule=rule, site=site, obligation=obligation, status="VIOLATED",
            construct=construct, detail=detail, where=where, nontrivial=True))

    def check(self, cond, rule, site, obligation, construct=None, detail="",
              where=""):
        if cond:
            self.ok(rule, site, obligation)
        else:
            self.bad(rule, site, obligation, construct or obligation, detail,
                     where)
        return bool(cond)

    def note(self, text):
        self.notes.append(text)

    def count(self, key, n=1):
        self.analysed[key] = self.analysed.get(key, 0) + n

    def require_min(self, rule, minimum, reason=""):
        self.minimums[rule] = (minimum, reason)

    # -- finishing -------------------------------------------------------
    def finish(self, seed=0):
        for rule, (minimum, reason) in self.minimums.items():
            n = sum(1 for o in self.obligations if o["rule"] == rule)
            if n < minimum:
                raise AnalysisError(
                    "rule %s matched %d instance(s), expected at least %d "
                    "(%s): a rule that matches nothing passes vacuously"
                    % (rule, n, minimum, reason))
        known = load_known()
        viol = [o for o in self.obligations if o["status"] == "VIOLATED"]
        new, listed = [], []
        for v in viol:
            k = finding_key(self.prop, v)
            if k in known:
                v["status"] = "KNOWN-FINDING"
                listed.append((v, known[k]))
            else:
                new.append(v)
        lines = []
        printed = set()
        for v, entry in listed:
            key = finding_key(self.prop, v)
            if key in printed:
                continue
            printed.add(key)
            lines.append("KNOWN-FINDING: property=%s %s %s [%s]: %s" % (
                self.prop, v["rule"], v["site"], v["construct"],
                entry.get("what", v["obligation"])))
        replay_dir = os.path.join(VERIF, "evidence", "replay")
        os.makedirs(replay_dir, exist_ok=True)
        for fn in os.listdir(replay_dir):
            if fn.startswith(self.prop + "-"):
                os.remove(os.path.join(replay_dir, fn))
        for i, v in enumerate(new):
            path = os.path.join(replay_dir, "%s-%d.json" % (self.prop, i))
            with open(path, "w") as f:
                json.dump(dict(property=self.prop, **v,
                               rule_text=self.rules.get(v["rule"], "")),
                          f, indent=1)
            lines.append("  violation: rule=%s site=%s %s construct=[%s]: %s %s"
                         % (v["rule"], v["site"], v.get("where", ""),
                            v["construct"], v["obligation"], v["detail"]))
            lines.append("VIOLATION property=%s replay=%s" % (self.prop, path))
        wall = time.time() - self.t0
        nontrivial = {(o["rule"], o["site"], o["obligation"])
                      for o in self.obligations if o.get("nontrivial")}
        per_rule = {}
        for o in self.obligations:
            per_rule[o["rule"]] = per_rule.get(o["rule"], 0) + 1
        samples = []
        seen_rules = set()
        for o in self.obligations:
            if o["rule"] not in seen_rules or o["status"] != "discharged":
                seen_rules.add(o["rule"])
                samples.append({k: o[k] for k in
                                ("rule", "site", "obligation", "status")})
        samples = samples[:40]
        cov = dict(
            evaluations=len(self.obligations),
            distinct_nontrivial=len(nontrivial),
            rule="one evaluation = one rule instance (rule x program site) "
                 "decided on the current /repo source; distinct = distinct "
                 "(rule, site, obligation) triples; non-trivial = the rule "
                 "found the construct it speaks about (no vacuous matches)",
            obligations=len(self.obligations),
            discharged=sum(1 for o in self.obligations
                           if o["status"] == "discharged"),
            known_findings=len(listed),
            samples=samples,
            explanation=self.explanation,
            rules=self.rules,
            per_rule_instances=per_rule,
            analysed=self.analysed,
            notes=self.notes,
            exhaustive=False,
        )
        if self.selftest is not None:
            cov["selftest"] = self.selftest
        ev = dict(
            property_id=self.prop, tier=self.tier, seed=seed, level="other",
            coverage=cov, assumptions=self.assumptions,
            wall_s=round(wall, 3), violations=len(new),
        )
        evdir = os.path.join(VERIF, "evidence")
        os.makedirs(evdir, exist_ok=True)
        with open(os.path.join(evdir, self.prop + ".json"), "w") as f:
            json.dump(ev, f, indent=1, sort_keys=True, default=str)
        print("chamlint %s [%s]: %d obligations, %d discharged, "
              "%d known finding(s), %d violation(s), %.2fs" % (
                  self.prop, self.tier, len(self.obligations),
                  cov["discharged"], len(listed), len(new), wall))
        for r, n in sorted(per_rule.items()):
            print("  rule %-8s %3d instance(s)  %s" % (
                r, n, self.rules.get(r, "")[:90]))
        for n in self.notes:
            print("  note: " + n)
        for ln in lines:
            print(ln)
        return 1 if new else 0


def finding_key(prop, v):
    return (prop, v["rule"], v["site"].split(":")[0], v["construct"])


def load_known():
    path = os.path.join(VERIF, "known_findings.json")
    if not os.path.exists(path):
        return {}
    with open(path) as f:
        data = json.load(f)
    out = {}
    for e in data.get("findings", []):
        out[(e["property"], e["rule"], e["function"], e["construct"])] = e
    return out
