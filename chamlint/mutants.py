"""Seeded variants for the thorough-tier self test (see selftest.py).

Each entry: id, file (relative to src/chameleon), old, new, expect
('fire' = seeded defect that breaks the property, 'silent' = behaviour-
preserving refactoring).  ``old`` must occur exactly once in the file.
"""

C = "compiler.py"
ZP = "zpt/program.py"

MUTANTS = {}


def m(prop, id, file, old, new, expect="fire"):
    MUTANTS.setdefault(prop, []).append(
        dict(id=id, file=file, old=old, new=new, expect=expect))


# ---- C13 -------------------------------------------------------------------
m("C13", "shared-saved-length", C,
  'fallback = identifier("__fallback", id(node))',
  'fallback = identifier("__fallback")')
m("C13", "fallback-before-truncate", C,
  '''                      template("del __stream[fallback:]", fallback=fallback) +
                      fallback_body
                      ),''',
  '''                      fallback_body +
                      template("del __stream[fallback:]", fallback=fallback)
                      ),''')
m("C13", "catch-baseexception", C,
  'type=ast.Tuple(elts=[Builtin("Exception")], ctx=ast.Load()),\n                name="__exc",',
  'type=ast.Tuple(elts=[Builtin("BaseException")], ctx=ast.Load()),\n                name="__exc",')
m("C13", "no-truncate", C,
  '''                      template("del __stream[fallback:]", fallback=fallback) +
''', '')
m("C13", "dynamic-attrs-in-fallback", ZP,
  '''                         isinstance(attr, nodes.Attribute) and
                         isinstance(attr.expression, ast.Constant) and
                         isinstance(attr.expression.value, str)]''',
  '''                         isinstance(attr, nodes.Attribute)]''')
m("C13", "error-variable-renamed", ZP,
  "ON_ERROR = partial(nodes.OnError, fallback, 'error')",
  "ON_ERROR = partial(nodes.OnError, fallback, 'err')")
m("C13", "handler-called-twice", C,
  '"if handler is not None: handler(__exc)",',
  '"if handler is not None: handler(__exc); handler(__exc)",')
m("C13", "truncate-wrong-local", C,
  'template("del __stream[fallback:]", fallback=fallback)',
  'template("del __stream[fallback:]", fallback=identifier("__fallback", id(node.node)))')
m("C13", "refactor-rename-local", C,
  '''        fallback = identifier("__fallback", id(node))
        body += template("fallback = len(__stream)", fallback=fallback)''',
  '''        fallback = identifier("__saved_len", id(node))
        body += template("saved = len(__stream)", saved=fallback)''',
  expect="silent")
m("C13", "refactor-return-concat", C,
  '''            finalbody=[],
            orelse=[],
        )]

        return body

    def visit_Content(self, node):''',
  '''            finalbody=[],
            orelse=[],
        )]

        return list(body)

    def visit_Content(self, node):''', expect="silent")

# ---- C05 -------------------------------------------------------------------
m("C05", "repeat-restore-always", C,
  '''        if local:
            outer += self._leave_assignment(names)''',
  '''        if outer:
            outer += self._leave_assignment(names)''')
m("C05", "repeat-no-dunder-check", C,
  '''            if name.startswith('__'):
                raise TranslationError(
                    "Name disallowed by compiler (double underscore).",
                    name
                )

        if len(node.names) > 1:''',
  '''        if len(node.names) > 1:''')
m("C05", "define-restore-in-order", C,
  '''        for assignment in reversed(node.assignments):
            if assignment.local:
                yield from self._leave_assignment(assignment.names)''',
  '''        for assignment in node.assignments:
            if assignment.local:
                yield from self._leave_assignment(assignment.names)''')
m("C05", "define-restore-unconditional", C,
  '''        for assignment in reversed(node.assignments):
            if assignment.local:
                yield from self._leave_assignment(assignment.names)''',
  '''        for assignment in reversed(node.assignments):
            yield from self._leave_assignment(assignment.names)''')
m("C05", "global-write-inverted", C,
  '''            if not node.local:
                # (the value of this name''',
  '''            if node.local:
                # (the value of this name''')
m("C05", "backup-marker-none", C,
  '''                "BACKUP = get(KEY, __marker)",''',
  '''                "BACKUP = get(KEY, None)",''')
m("C05", "backup-shared-name", C,
  '''                "BACKUP = get(KEY, __marker)",
                BACKUP=identifier("backup%d_%s" % (i, name), id(names)),''',
  '''                "BACKUP = get(KEY, __marker)",
                BACKUP=identifier("backup%d_%s" % (i, name), name),''')
m("C05", "no-merge-after-internal-macro", C,
  '''        return token_reset + self._merge_globals(node, template(
            "f(__stream, econtext.copy(), rcontext, "
            "__i18n_domain, __i18n_context, target_language)",
            f=render))''',
  '''        return token_reset + template(
            "f(__stream, econtext.copy(), rcontext, "
            "__i18n_domain, __i18n_context, target_language)",
            f=render)''')
m("C05", "macro-shares-scope", C,
  '''            "f(__stream, econtext.copy(), rcontext, "''',
  '''            "f(__stream, econtext, rcontext, "''')
m("C05", "builtin-before-context", C,
  '''                "get(key, name)",
                mode="eval",
                key=ast.Constant(name),
                name=Builtin(name),''',
  '''                "name",
                mode="eval",
                name=Builtin(name),''')
m("C05", "scope-copy-detached", "utils.py",
  '''        root = getattr(self, "_root", self)
        inst._root = root  # type: ignore[attr-defined]''',
  '''        root = getattr(self, "_root", inst)
        inst._root = root  # type: ignore[attr-defined]''')
m("C05", "scope-get-root-first", "utils.py",
  '''        value = super().get(key, marker)
        if value is not marker:
            return value

        root = getattr(self, "_root", marker)
        if root is not marker:
            value = super(Scope, root).get(key, marker)

            if value is not marker:
                return value

        return default''',
  '''        root = getattr(self, "_root", marker)
        if root is not marker:
            value = super(Scope, root).get(key, marker)

            if value is not marker:
                return value

        value = super().get(key, marker)
        if value is not marker:
            return value

        return default''')
m("C05", "restore-branches-swapped", C,
  '''                "if BACKUP is __marker: del econtext[KEY]\\n"
                "else:                 econtext[KEY] = BACKUP",''',
  '''                "if BACKUP is not __marker: del econtext[KEY]\\n"
                "else:                 econtext[KEY] = BACKUP",''')
m("C05", "refactor-define-loop-vars", C,
  '''        for assignment in node.assignments:
            if assignment.local:
                yield from self._enter_assignment(assignment.names)

            yield from self.visit(assignment)''',
  '''        for a in node.assignments:
            is_local = a.local
            if is_local:
                yield from self._enter_assignment(a.names)

            yield from self.visit(a)''', expect="silent")
m("C05", "refactor-repeat-leave-list", C,
  '''        if local:
            outer += self._leave_assignment(names)''',
  '''        if node.local:
            outer.extend(self._leave_assignment(names))''', expect="silent")

# ---- C02 -------------------------------------------------------------------
m("C02", "quote-drops-gt", C,
  '''                    if '>' in target:
                        target = target.replace('>', '&gt;')
''', '')
m("C02", "quote-amp-last", C,
  '''                    if '&' in target:
                        target = target.replace('&', '&amp;')
                    if '<' in target:
                        target = target.replace('<', '&lt;')
                    if '>' in target:
                        target = target.replace('>', '&gt;')
''',
  '''                    if '<' in target:
                        target = target.replace('<', '&lt;')
                    if '>' in target:
                        target = target.replace('>', '&gt;')
                    if '&' in target:
                        target = target.replace('&', '&amp;')
''')
m("C02", "quote-not-escaped", C,
  '''                    if quote is not None and quote in target:
                        target = target.replace(quote, quote_entity)
''', '')
m("C02", "number-subclass-unescaped", C,
  '''            if __tt is int or __tt is float:
                return str(target)
            __markup = getattr(target, "__html__", None)''',
  '''            if isinstance(target, (int, float)):
                return str(target)
            __markup = getattr(target, "__html__", None)''')
m("C02", "translated-returned-raw", C,
  '''                target = str(target) if target is __converted \\
                         else __converted
            else:
                return __markup()''',
  '''                if target is not __converted:
                    return __converted
                target = str(target)
            else:
                return __markup()''')
m("C02", "precheck-misses-apostrophe", C,
  '''r"g_re_needs_escape = re.compile(r'[&<>\\"\\']').search")''',
  '''r"g_re_needs_escape = re.compile(r'[&<>\\"]').search")''')
m("C02", "content-routing-inverted", C,
  '''        if node.char_escape:
            body += template(
                "NAME=__quote(NAME, None, '\\255', None, None)",
                NAME=name,
            )
        else:
            body += template("NAME = __convert(NAME)", NAME=name)''',
  '''        if not node.char_escape:
            body += template(
                "NAME=__quote(NAME, None, '\\255', None, None)",
                NAME=name,
            )
        else:
            body += template("NAME = __convert(NAME)", NAME=name)''')
m("C02", "attr-escape-without-quote", ZP,
  '''            char_escape = ('&', '<', '>', quote)''',
  '''            char_escape = ('&', '<', '>')''')
m("C02", "dict-attr-single-quote-written", ZP,
  '''                            ('&', '<', '>', '"'),
                            '"',''',
  '''                            ('&', '<', '>', '"'),
                            "'",''')
m("C02", "text-never-escaped-structure-default", ZP,
  '''        char_escape = ('&', '<', '>') if key == 'text' else ()
        content = nodes.Content(value, char_escape, translate)''',
  '''        char_escape = ('&', '<', '>') if key != 'structure' and translate else ()
        content = nodes.Content(value, char_escape, translate)''')
m("C02", "comment-unescaped", ZP,
  '''        char_escape = ('&', '<', '>') if self.escape else ()
        expression = nodes.Substitution(node[4:-3], char_escape)''',
  '''        char_escape = ()
        expression = nodes.Substitution(node[4:-3], char_escape)''')
m("C02", "interpolation-parts-as-values", C,
  '''                        compiler = engine.parse(string)
                        body += compiler.assign_text(target)''',
  '''                        compiler = engine.parse(string)
                        body += compiler.assign_value(target)''')
m("C02", "substitution-loses-escape-set", C,
  '''        compiler = engine.parse(node.value, char_escape=node.char_escape)
        return compiler.assign_text(target)''',
  '''        compiler = engine.parse(node.value)
        return compiler.assign_text(target)''')
m("C02", "entity-of-other-quote", C,
  '''        entity = char2entity(quote or '\\0')

        return template(''',
  '''        entity = char2entity('"')

        return template(''')
m("C02", "dict-value-not-escaped", C,
  '''                    "QUOTE_FUNC(value, QUOTE, QUOTE_ENTITY, None, None) + "''',
  '''                    "str(value) + "''')
m("C02", "refactor-quote-elif", C,
  '''        if target is None:
            return

        if target is default_marker:
            return default

        __tt = type(target)

        if __tt is encoded:
            target = decode(target)
        elif __tt is not str:
            if __tt is int or __tt is float:
                return str(target)
            __markup''',
  '''        if target is None:
            return
        elif target is default_marker:
            return default

        __tt = type(target)

        if __tt is encoded:
            target = decode(target)
        elif __tt is not str:
            if __tt is float or __tt is int:
                return str(target)
            __markup''', expect="silent")
m("C02", "refactor-content-name", C,
  '''        name = "__content"
        body = self._engine(node.expression, store(name))''',
  '''        name = "__text"
        body = self._engine(node.expression, store(name))''', expect="silent")

# ---- C01 -------------------------------------------------------------------
m("C01", "repeat-outside-condition", ZP,
  '''            CASE,
            CONDITION,
            REPEAT,
            SWITCH,''',
  '''            CASE,
            REPEAT,
            CONDITION,
            SWITCH,''')
m("C01", "condition-outside-define", ZP,
  '''            DEFINE_SLOT,
            DEFINE,
            CASE,
            CONDITION,''',
  '''            DEFINE_SLOT,
            CONDITION,
            DEFINE,
            CASE,''')
m("C01", "default-branches-swapped", ZP,
  '''                nodes.BinOp(value, nodes.Is, self.default_marker),
                default,
                content,
            )''',
  '''                nodes.BinOp(value, nodes.Is, self.default_marker),
                content,
                default,
            )''')
m("C01", "omit-end-tag-unconditional", ZP,
  '''                    if end_tag is not None:
                        end_tag = nodes.Condition(expression, end_tag)
''', '')
m("C01", "omit-not-cached", ZP,
  '''                if omit is not False:
                    inner = nodes.Cache([omit], inner)
''', '')
m("C01", "replace-keeps-content-only", ZP,
  '''                inner = self._make_content_node(
                    value, inner, key, translate
                )''',
  '''                inner = self._make_content_node(
                    value, content, key, translate
                )''')
m("C01", "condition-else-swapped", C,
  '''                body=self.visit(node.node) or [ast.Pass()],
                orelse=self.visit(orelse) if orelse else None,''',
  '''                body=self.visit(orelse) or [ast.Pass()],
                orelse=self.visit(node.node) if orelse else None,''')
m("C01", "repeat-binding-after-body", C,
  '''            body=assignment + inner,''',
  '''            body=inner + assignment,''')
m("C01", "element-end-before-content", C,
  '''        yield from self.visit(node.content)

        if node.end is not None:
            yield from self.visit(node.end)''',
  '''        if node.end is not None:
            yield from self.visit(node.end)

        yield from self.visit(node.content)''')
m("C01", "cancel-other-variable", C,
  '''            assert self._expression_cache.get(expression) is not None
            name = identifier("cache", id(expression))''',
  '''            assert self._expression_cache.get(expression) is not None
            name = identifier("cancel", id(expression))''')
m("C01", "case-binds-own-switch", ZP,
  '''            for parent_switch in reversed(self._switches[:-1]):''',
  '''            for parent_switch in reversed(self._switches):''')
m("C01", "content-none-appended", C,
  '''        body += template("if NAME is not None: __append(NAME)", NAME=name)''',
  '''        body += template("__append(NAME)", NAME=name)''')
m("C01", "define-after-body", C,
  '''            yield from self.visit(assignment)

        yield from self.visit(node.node)
''',
  '''            pass

        yield from self.visit(node.node)

        for assignment in node.assignments:
            yield from self.visit(assignment)
''')
m("C01", "attribute-order-dependent-loop", ZP,
  '''                    continue
                ns[prefix, attr] = decode_htmlentities(encoded)''',
  '''                    continue
                ns[prefix, attr] = decode_htmlentities(encoded)
                self._order = getattr(self, "_order", [])
                self._order.append(attr)''')
m("C01", "cache-reevaluates", C,
  '''            # Skip re-evaluation
            if self._expression_cache.get(expression):
                continue
''', '')
m("C01", "content-keeps-nothing-on-default", ZP,
  '''                content = self._make_content_node(
                    value, content, key, translate,
                )

                if end is None:''',
  '''                content = self._make_content_node(
                    value, None, key, translate,
                )

                if end is None:''')
m("C01", "refactor-reorder-blocks", ZP,
  '''        # tal:condition
        try:
            clause = ns[TAL, 'condition']
        except KeyError:
            CONDITION = skip
        else:
            expression = nodes.Value(clause)
            CONDITION = partial(nodes.Condition, expression)

        # tal:switch
        if switch is None:
            SWITCH = skip
        else:
            SWITCH = partial(nodes.Cache, [switch])
''',
  '''        # tal:switch
        if switch is not None:
            SWITCH = partial(nodes.Cache, [switch])
        else:
            SWITCH = skip

        # tal:condition
        try:
            clause = ns[TAL, 'condition']
        except KeyError:
            CONDITION = skip
        else:
            cond_expr = nodes.Value(clause)
            CONDITION = partial(nodes.Condition, cond_expr)
''', expect="silent")
m("C01", "refactor-wrap-twice", ZP,
  '''            SWITCH,
            DOMAIN,
            CONTEXT,
            TARGET,
        )
''',
  '''            SWITCH,
            DOMAIN,
            CONTEXT,
            TARGET
        )
''', expect="silent")

# ---- C03 -------------------------------------------------------------------
T = "tokenize.py"
PA = "parser.py"
m("C03", "end-space-doubled", C,
  "yield EmitText(node.prefix + node.name + node.suffix)\n\n    def visit_Attribute",
  "yield EmitText(node.prefix + node.name + node.space + node.suffix)\n\n    def visit_Attribute")
m("C03", "text-needs-two-chars", T,
  'a("TextSE", "[^<]+")', 'a("TextSE", "[^<][^<]+")')
m("C03", "text-excludes-amp", T,
  'a("TextSE", "[^<]+")', 'a("TextSE", "[^<&]+")')
m("C03", "markup-requires-tag", T,
  '''"\\\\?(?:%(PI_CE)s)?|/(?:%(EndTagCE)s)?|(?:%(ElemTagCE)s)?)")''',
  '''"\\\\?(?:%(PI_CE)s)?|/(?:%(EndTagCE)s)?|(?:%(ElemTagCE)s))")''')
m("C03", "iter-skips-whitespace-tokens", T,
  '''        string = match.group()
        pos = match.start()
        yield Token(string, pos, body, filename)''',
  '''        string = match.group()
        pos = match.start()
        if not string.strip(' '):
            continue
        yield Token(string, pos, body, filename)''')
m("C03", "token-pos-relative", T,
  '''        pos = match.start()
        yield Token(string, pos, body, filename)''',
  '''        pos = match.end()
        yield Token(string, pos, body, filename)''')
m("C03", "start-suffix-dropped", C,
  '''            yield from self.visit(node.attributes)

            yield EmitText(node.suffix)''',
  '''            yield from self.visit(node.attributes)

            yield EmitText(">")''')
m("C03", "attr-eq-normalised", C,
  '''        attr_format = (node.space + node.name + node.eq +
                       node.quote).replace("%", "%%") + "%s" + node.quote''',
  '''        attr_format = (node.space + node.name + "=" +
                       node.quote).replace("%", "%%") + "%s" + node.quote''')
m("C03", "attr-space-eq-swapped", ZP,
  '''                    quote,
                    eq,
                    space,
                    default,
                    filtering[-1],''',
  '''                    quote,
                    space,
                    eq,
                    default,
                    filtering[-1],''')
m("C03", "cdata-always-interpolated", ZP,
  '''        if not self._interpolation[-1] or '${' not in node:
            return nodes.Text(node)

        expr = nodes.Substitution(node, ())''',
  '''        if not self._interpolation[-1]:
            return nodes.Text(node)

        expr = nodes.Substitution(node, ())''')
m("C03", "newline-rewrite-in-xml", "zpt/template.py",
  '''            body = body.replace('\\r\\n', '\\n').replace('\\r', '\\n')

        return MacroProgram(''',
  '''            pass

        body = body.replace('\\r\\n', '\\n').replace('\\r', '\\n')

        return MacroProgram(''')
m("C03", "tabs-expanded", "zpt/template.py",
  '''            body = body.replace('\\r\\n', '\\n').replace('\\r', '\\n')''',
  '''            body = body.replace('\\r\\n', '\\n').replace('\\r', '\\n')
            body = body.expandtabs()''')
m("C03", "default-strips", ZP,
  '''    def visit_default(self, node):
        return nodes.Text(node)''',
  '''    def visit_default(self, node):
        return nodes.Text(node.strip())''')
m("C03", "suffix-not-updated", PA,
  '''        attrs.append(attr)
        d['suffix'] = token[m.end():]''',
  '''        attrs.append(attr)''')
m("C03", "refactor-iter-xml", T,
  '''        string = match.group()
        pos = match.start()
        yield Token(string, pos, body, filename)''',
  '''        yield Token(match.group(), match.start(), body, filename)''',
  expect="silent")
m("C03", "refactor-end-format", C,
  "yield EmitText(node.prefix + node.name + node.suffix)\n\n    def visit_Attribute",
  "text = node.prefix + node.name\n        yield EmitText(text + node.suffix)\n\n    def visit_Attribute",
  expect="silent")

# ---- C04 -------------------------------------------------------------------
TA = "tales.py"
m("C04", "pipe-catches-exception", TA,
  '''    exceptions = AttributeError, \\
        NameError, \\
        LookupError, \\
        TypeError, \\
        ValueError

    ignore_prefix = True''',
  '''    exceptions = AttributeError, \\
        NameError, \\
        LookupError, \\
        TypeError, \\
        ValueError, \\
        ArithmeticError

    ignore_prefix = True''')
m("C04", "pipe-misses-valueerror", TA,
  '''        LookupError, \\
        TypeError, \\
        ValueError

    ignore_prefix = True''',
  '''        LookupError, \\
        TypeError

    ignore_prefix = True''')
m("C04", "pipe-left-nested", TA,
  '''                body = [ast.Try(
                    body=assignment,
                    handlers=[ast.ExceptHandler(
                        type=ast.Tuple(
                            elts=list(map(resolve_global, self.exceptions)),
                            ctx=ast.Load()),
                        name=None,
                        body=body,
                    )],''',
  '''                body = [ast.Try(
                    body=body,
                    handlers=[ast.ExceptHandler(
                        type=ast.Tuple(
                            elts=list(map(resolve_global, self.exceptions)),
                            ctx=ast.Load()),
                        name=None,
                        body=assignment,
                    )],''')
m("C04", "pipe-bare-except", TA,
  '''                    handlers=[ast.ExceptHandler(
                        type=ast.Tuple(
                            elts=list(map(resolve_global, self.exceptions)),
                            ctx=ast.Load()),
                        name=None,
                        body=body,
                    )],''',
  '''                    handlers=[ast.ExceptHandler(
                        type=None,
                        name=None,
                        body=body,
                    )],''')
m("C04", "item-before-attribute", "utils.py",
  '''    try:
        return getattr(obj, key)
    except AttributeError as exc:''',
  '''    try:
        return obj[key]
    except (TypeError, KeyError, IndexError):
        pass
    try:
        return getattr(obj, key)
    except AttributeError as exc:''')
m("C04", "lookup-raises-keyerror", "utils.py",
  '''        try:
            return get(key)
        except KeyError:
            raise exc''',
  '''        return get(key)''')
m("C04", "omit-evaluated-twice", ZP,
  '''                if omit is not False:
                    inner = nodes.Cache([omit], inner)
''', '')
m("C04", "case-value-uncached", ZP,
  '''                        nodes.Cache(
                            [value],
                            nodes.Condition(''',
  '''                        nodes.Cache(
                            [],
                            nodes.Condition(''')
m("C04", "content-value-uncached", ZP,
  '''            # Cache expression to avoid duplicate evaluation
            content = nodes.Cache([value], content)
''', '')
m("C04", "transformer-ignores-cache", C,
  '''        cached = self.cache.get(expression)

        if cached is not None:''',
  '''        cached = None

        if cached is not None:''')
m("C04", "default-type-string", "zpt/template.py",
  "    default_expression: str = 'python'",
  "    default_expression: str = 'string'")
m("C04", "not-prefix-maps-exists", "zpt/template.py",
  "        'not': NotExpr,", "        'not': ExistsExpr,")
m("C04", "lambda-empty-scope", "astutil.py",
  """        # A nested scope sees the names bound by the enclosing ones.
        self.scopes.append(set(self.scopes[-1]))""",
  """        # A nested scope sees the names bound by the enclosing ones.
        self.scopes.append(set())""")
m("C04", "listcomp-handler-removed", "astutil.py",
  "    visit_ListComp = _visit_comprehension\n", "")
m("C04", "not-evaluates-twice", TA,
  '''        compiler = engine.parse(self.expression)
        body = compiler.assign_value(target)
        return body + template("target = not target", target=target)''',
  '''        compiler = engine.parse(self.expression)
        body = compiler.assign_value(target)
        return body + body + template("target = not target", target=target)''')
m("C04", "refactor-exceptions-tuple", TA,
  '''    exceptions = AttributeError, \\
        NameError, \\
        LookupError, \\
        TypeError, \\
        ValueError

    ignore_prefix = True''',
  '''    exceptions = (NameError, AttributeError, LookupError,
                  ValueError, TypeError)

    ignore_prefix = True''', expect="silent")

# ---- C07 -------------------------------------------------------------------
TL = "tal.py"
m("C07", "index-before-insert", TL,
  "                normalized[name.lower()] = index\n",
  "                normalized[name.lower()] = len(attributes) - 1\n")
m("C07", "static-index-off-by-one", TL,
  "        normalized[name.lower()] = len(attributes) - 1\n\n    for name, expr in dyn_attributes:",
  "        normalized[name.lower()] = len(attributes)\n\n    for name, expr in dyn_attributes:")
m("C07", "lookup-not-folded", TL,
  "        index = normalized.get(name.lower()) if name else None",
  "        index = normalized.get(name) if name else None")
m("C07", "store-not-folded", TL,
  "        normalized[name.lower()] = len(attributes) - 1\n\n    for name, expr in dyn_attributes:",
  "        normalized[name] = len(attributes) - 1\n\n    for name, expr in dyn_attributes:")
m("C07", "dynamic-appended-not-replaced", TL,
  "            add = attributes.__setitem__",
  "            add = attributes.insert")
m("C07", "dict-excludes-earlier", ZP,
  "                            set(filter(None, names[i:])),",
  "                            set(filter(None, names[:i])),")
m("C07", "boolean-for-all-dynamic", ZP,
  "                    elif name in self.boolean_attributes:\n                        value = nodes.Boolean(",
  "                    elif name is not None and expr:\n                        value = nodes.Boolean(")
m("C07", "none-attribute-written", C,
  '''        condition = template("TARGET is not None", TARGET=target, mode="eval")''',
  '''        condition = template("TARGET is not False", TARGET=target, mode="eval")''')
m("C07", "bool-false-renders-empty", C,
  '''    else:
        target = None""")


emit_convert =''',
  '''    else:
        target = ''""")


emit_convert =''')
m("C07", "bool-marker-true", C,
  '''    if target is default_marker:
        target = default
    elif target:
        target = s''',
  '''    if target:
        target = s
    elif target is default_marker:
        target = default''')
m("C07", "html-bools-in-xml", "zpt/template.py",
  '''        if self.content_type != 'text/xml':
            if boolean_attributes is None:
                boolean_attributes = BOOLEAN_HTML_ATTRIBUTES
''',
  '''        if boolean_attributes is None:
            boolean_attributes = BOOLEAN_HTML_ATTRIBUTES

        if self.content_type != 'text/xml':
''')
m("C07", "filters-not-registered", ZP,
  '''                        for fs in filtering:
                            fs.append(expression)
                        filtering.append([])''',
  '''                        filtering[-1].append(expression)
                        filtering.append([])''')
m("C07", "static-ignores-filters", C,
  '''            if node.filters:
                return template(
                    "if C: __append(S)", C=filter_condition, S=ast.Constant(s)
                )
            else:
                return [EmitText(s)]''',
  '''            return [EmitText(s)]''')
m("C07", "default-lost", ZP,
  "                default = ast.Constant(text) if text is not None else None",
  "                default = None")
m("C07", "refactor-lower-var", TL,
  '''        attributes.append((
            name,
            attribute['value'],
            attribute['quote'],
            attribute['space'],
            attribute['eq'],
            None,
        ))

        normalized[name.lower()] = len(attributes) - 1''',
  '''        entry = (
            name,
            attribute['value'],
            attribute['quote'],
            attribute['space'],
            attribute['eq'],
            None,
        )
        key = name.lower()
        attributes.append(entry)
        normalized[key] = len(attributes) - 1''', expect="silent")

# ---- C09 -------------------------------------------------------------------
m("C09", "collector-not-popped-for-extend", ZP,
  "        if use_macro or extend_macro:\n            self._use_macro.pop()",
  "        if use_macro:\n            self._use_macro.pop()")
m("C09", "slot-key-mismatch", C,
  '        name = "__slot_%s" % mangle(node.name)\n        body = self.visit(node.node)',
  '        name = "__slot_%s" % node.name\n        body = self.visit(node.node)')
m("C09", "extend-pushes-right", C,
  'append = template("_slots.appendleft(NAME)", NAME=fun)',
  'append = template("_slots.append(NAME)", NAME=fun)')
m("C09", "prologue-pops-left", C,
  '''                "try: NAME = econtext[KEY].pop()\\n"''',
  '''                "try: NAME = econtext[KEY].popleft()\\n"''')
m("C09", "define-slot-branches-swapped", C,
  '''            ast.If(test=test, body=body or [ast.Pass()], orelse=orelse)''',
  '''            ast.If(test=test, body=orelse, orelse=body or [ast.Pass()])''')
m("C09", "filler-shares-scope", C,
  '''            "SLOT(__stream, econtext.copy(), rcontext)",''',
  '''            "SLOT(__stream, econtext, rcontext)",''')
m("C09", "macro-gets-callers-scope", C,
  '''        callbacks = template("SCOPE = econtext.copy()", SCOPE=scope)''',
  '''        callbacks = template("SCOPE = econtext", SCOPE=scope)''')
m("C09", "fillers-stored-in-callers-scope", C,
  '''                "_slots = SCOPE[KEY] = DEQUE((NAME,))",
                SCOPE=scope,''',
  '''                "_slots = econtext[KEY] = DEQUE((NAME,))",''')
m("C05", "macro-gets-callers-scope", C,
  '''        callbacks = template("SCOPE = econtext.copy()", SCOPE=scope)''',
  '''        callbacks = template("SCOPE = econtext", SCOPE=scope)''')
m("C09", "no-merge-after-external-macro", C,
  '''            self._merge_globals(node, template(
                "__m(__stream, SCOPE, "
                "rcontext, __i18n_domain, __i18n_context, target_language)",
                SCOPE=scope,
            ))
        )''',
  '''            template(
                "__m(__stream, SCOPE, "
                "rcontext, __i18n_domain, __i18n_context, target_language)",
                SCOPE=scope,
            )
        )''')
m("C09", "macroname-global", ZP,
  '''                    ["macroname"], Static(ast.Constant(macro_name)), True)],''',
  '''                    ["macroname"], Static(ast.Constant(macro_name)), False)],''')
m("C09", "extend-flag-lost", ZP,
  '''                    nodes.Value(extend_macro), slots, True
                )''',
  '''                    nodes.Value(extend_macro), slots, False
                )''')
m("C09", "names-without-cook-check", "zpt/template.py",
  '''    def names(self) -> list[str]:
        self.template.cook_check()

        result = []''',
  '''    def names(self) -> list[str]:
        result = []''')
m("C09", "include-without-cook-check", "zpt/template.py",
  '''    def include(self, *args: Any, **kwargs: Any) -> None:
        self.cook_check()
        self._render(*args, **kwargs)''',
  '''    def include(self, *args: Any, **kwargs: Any) -> None:
        self._render(*args, **kwargs)''')
m("C09", "use-keeps-outer-fillers", C,
  '''            if node.extend:
                append = template("_slots.appendleft(NAME)", NAME=fun)''',
  '''            if True:
                append = template("_slots.appendleft(NAME)", NAME=fun)''')
m("C09", "slots-not-reset-per-macro", C,
  '''        # Internal set of defined slots
        self._slots = set()
''', '''        # Internal set of defined slots
        if not hasattr(self, "_slots"):
            self._slots = set()
''')
m("C09", "refactor-collector-pop", ZP,
  "        if use_macro or extend_macro:\n            self._use_macro.pop()",
  "        if extend_macro or use_macro:\n            self._use_macro.pop()",
  expect="silent")

# ---- C10 -------------------------------------------------------------------
m("C10", "translate-shared-stream", C,
  '''        append = identifier("append", id(node))
        stream = identifier("stream", id(node))

        body += template("s = new_list", s=stream, new_list=self._new_list) + \\
            template("a = s.append", a=append, s=stream)

        # Visit body to generate the message body''',
  '''        append = identifier("append", "tx")
        stream = identifier("stream", "tx")

        body += template("s = new_list", s=stream, new_list=self._new_list) + \\
            template("a = s.append", a=append, s=stream)

        # Visit body to generate the message body''')
m("C10", "explicit-id-as-default", C,
  '''        # if this translation node has a name, use it as the message id
        if node.msgid:
            msgid = ast.Constant(node.msgid)
''',
  '''        # if this translation node has a name, use it as the message id
        if node.msgid:
            msgid = ast.Constant(node.msgid)
            default = msgid
''')
m("C10", "empty-content-translated", C,
  '''        if not node.msgid:
            translation = [ast.If(
                test=load(msgid), body=translation, orelse=[]
            )]
''', '')
m("C10", "msgid-not-stripped", C,
  '''            "msgid = __re_whitespace(''.join(stream)).strip()",''',
  '''            "msgid = __re_whitespace(''.join(stream))",''')
m("C10", "convert-drops-context", C,
  '''                    __converted = translate(
                        target,
                        domain=__i18n_domain,
                        context=__i18n_context,
                        target_language=target_language
                    )
                    target = str(target) \\
                        if target is __converted \\
                        else __converted
                else:
                    target = __markup()

        return target"""''',
  '''                    __converted = translate(
                        target,
                        domain=__i18n_domain,
                        target_language=target_language
                    )
                    target = str(target) \\
                        if target is __converted \\
                        else __converted
                else:
                    target = __markup()

        return target"""''')
m("C10", "interpolation-translate-no-target", C,
  '''                    "translate(msgid, domain=__i18n_domain, context=__i18n_context, target_language=target_language)",  # noqa:  E501 line too long''',
  '''                    "translate(msgid, domain=__i18n_domain, context=__i18n_context)",  # noqa:  E501 line too long''')
m("C10", "domain-not-restored", C,
  '''            self.visit(node.node) + \\
            template("__i18n_domain = BACKUP", BACKUP=backup)''',
  '''            self.visit(node.node)''')
m("C10", "context-backup-shared", C,
  '''        backup = "__previous_i18n_context_%s" % mangle(id(node))''',
  '''        backup = "__previous_i18n_context_%s" % mangle(node.name)''')
m("C10", "filler-gets-callers-settings", C,
  '''            "SLOT(__stream, econtext.copy(), rcontext)",''',
  '''            "SLOT(__stream, econtext.copy(), rcontext, __i18n_domain, __i18n_context, target_language)",''')
m("C10", "filler-defaults-none", C,
  '''                        defaults=[
                            load("__i18n_domain"),
                            load("__i18n_context"),
                            load("target_language"),
                        ],''',
  '''                        defaults=[
                            load("None"),
                            load("None"),
                            load("None"),
                        ],''')
m("C10", "name-placeholder-inside-block", C,
  '''            body=[TranslationContext(code, append, stream)],
            handlers=[],
            orelse=[],
            finalbody=template("stream = ''.join(stream)", stream=stream),
        ))

        # output msgid
        text = Text('${%s}' % node.name)
        body += self.visit(text)
''',
  '''            body=[TranslationContext(
                code + self.visit(Text('${%s}' % node.name)), append, stream)],
            handlers=[],
            orelse=[],
            finalbody=template("stream = ''.join(stream)", stream=stream),
        ))
''')
m("C10", "message-object-stringified", C,
  '''                    __converted = translate(
                        target,
                        domain=__i18n_domain,
                        context=__i18n_context,
                        target_language=target_language
                    )
                    target = str(target) \\
                        if target is __converted \\
                        else __converted
                else:
                    target = __markup()""")''',
  '''                    target = str(target)
                else:
                    target = __markup()""")''')
m("C10", "attr-translate-default-none", C,
  '''            emit_translate(target, msgid, default=target,
                           target_language=TARGET_LANGUAGE)''',
  '''            emit_translate(target, msgid,
                           target_language=TARGET_LANGUAGE)''')
m("C10", "attr-translate-target-rewritten", C,
  '''            emit_translate(target, msgid, default=target,
                           target_language=TARGET_LANGUAGE)''',
  '''            emit_translate(target, msgid, default=target)''')
m("C10", "inline-convert-target-rewritten", C,
  '''            default_marker=self._default_marker,
            target_language=TARGET_LANGUAGE,
''', '''            default_marker=self._default_marker,
''')
m("C10", "target-constant-is-a-plain-name", C,
  'TARGET_LANGUAGE = Builtin("target_language")',
  'TARGET_LANGUAGE = load("target_language")')
m("C10", "duplicate-name-accepted", C,
  '''        if node.name in self._translations[-1]:
            raise TranslationError(
                "Duplicate translation name: %s.", node.name)
''', '')
m("C10", "target-not-evaluated", C,
  '''            self._engine(node.expression, store(tmp)) + \\
            [ast.Assign([store("target_language")], load(tmp))] + \\''',
  '''            [ast.Assign([store("target_language")], ast.Constant(str(node.expression)))] + \\''')
m("C10", "refactor-domain-backup", C,
  '''        backup = "__previous_i18n_domain_%s" % mangle(id(node))
        return template("BACKUP = __i18n_domain", BACKUP=backup) + \\''',
  '''        backup = identifier("previous_domain", id(node))
        return template("SAVED = __i18n_domain", SAVED=backup) + \\''',
  expect="silent")

# ---- C12 -------------------------------------------------------------------
TP = "template.py"
m("C12", "retype-baseexception", TP,
  '''        except RecursionError:
            raise
        except Exception:
            cls, exc, tb = sys.exc_info()''',
  '''        except RecursionError:
            raise
        except BaseException:
            cls, exc, tb = sys.exc_info()''')
m("C12", "recursionerror-wrapped", TP,
  '''        except RecursionError:
            raise
        except Exception:''',
  '''        except Exception:''')
m("C12", "compiler-slices-raw-body", TP,
  '''            getattr(program, "source", body),''',
  '''            body,''')
m("C12", "tokenref-appended-last", C,
  "                stmts.insert(0, TokenRef(string.strip()))",
  "                stmts.append(TokenRef(string.strip()))")
m("C12", "first-of-adjacent-refs", C,
  "                nodes = [nodes[-1]]", "                nodes = [nodes[0]]")
m("C12", "handler-swallows", C,
  '''            pos="__token"
        ) + template("raise")''',
  '''            pos="__token"
        )''')
m("C12", "handler-raise-new", C,
  '''            pos="__token"
        ) + template("raise")''',
  '''            pos="__token"
        ) + template("raise RuntimeError('render failed')")''')
m("C12", "partial-output-returned", TP,
  '''            finally:
                del exc, tb

        return join(stream)''',
  '''                return join(stream)
            finally:
                del exc, tb

        return join(stream)''')
m("C12", "bases-swapped", "utils.py",
  "        bases = (base, ) if issubclass(base, cls) else (cls, base)\n",
  "        bases = (base, ) if issubclass(base, cls) else (base, cls)\n")
m("C12", "args-dropped", "utils.py",
  "        BaseException.__init__(inst, *exc.args)",
  "        BaseException.__init__(inst, str(exc))")
m("C12", "macro-call-no-tokenref", C,
  '''            assignment +
            [TokenRef(node.expression.value)] +
            template("__m = __macro.include") +''',
  '''            assignment +
            template("__m = __macro.include") +''')
m("C12", "internal-macro-keeps-token", C,
  '''        token_reset = template("__token = None")
        return token_reset + self._merge_globals(''',
  '''        token_reset = []
        return token_reset + self._merge_globals(''')
m("C12", "program-stores-other-text", "program.py",
  "        self.source = source\n        tokens = tokenizer(source, filename)",
  "        self.source = source\n        source = source.expandtabs()\n        tokens = tokenizer(source, filename)")
m("C12", "record-wrong-exception", C,
  '''            "exc_info()[1]", exc_info=Symbol(sys.exc_info), mode="eval"''',
  '''            "exc_info()[0]", exc_info=Symbol(sys.exc_info), mode="eval"''')
m("C12", "refactor-render-locals", TP,
  '''        stream = self.output_stream_factory()
        target_language = __kw.get("target_language")''',
  '''        target_language = __kw.get("target_language")
        stream = self.output_stream_factory()''', expect="silent")

# ---- C11 -------------------------------------------------------------------
m("C11", "split-ignores-separator", T,
  "            offset += len(s) + (len(sep) if sep is not None else 0)",
  "            offset += len(s)")
m("C11", "slice-pos-not-advanced", T,
  "                s, self.pos + (index.start or 0), self.source, self.filename)",
  "                s, self.pos, self.source, self.filename)")
m("C11", "lstrip-keeps-pos", T,
  "            s, self.pos + len(self) - len(s), self.source, self.filename)",
  "            s, self.pos, self.source, self.filename)")
m("C11", "rstrip-moves-pos", T,
  '''        s = str.rstrip(self, chars)
        return Token(s, self.pos, self.source, self.filename)''',
  '''        s = str.rstrip(self, chars)
        return Token(s, self.pos + len(self) - len(s), self.source, self.filename)''')
m("C11", "groups-plain-strings", PA,
  '''        if group is not None:
            j, k = m.span(i + 1)
            group = token[j:k]

        result.append(group)''',
  '''        result.append(group)''')
m("C11", "error-token-lowercased", ZP,
  '''            raise CompilationError(
                "Bad attribute for namespace '%s'" % ns, name
            )''',
  '''            raise CompilationError(
                "Bad attribute for namespace '%s'" % ns, name.lower()
            )''')
m("C11", "error-token-formatted", ZP,
  '''                raise LanguageError(
                    "Must define switch on a parent element.", clause
                )''',
  '''                raise LanguageError(
                    "Must define switch on a parent element.",
                    "tal:case=%s" % clause
                )''')
m("C11", "repeat-assert-back", ZP,
  '''            if len(defines) != 1:
                raise LanguageError(
                    "Invalid repeat syntax (one definition expected).",
                    clause
                )''',
  '''            assert len(defines) == 1''')
m("C11", "valueerror-for-bad-interpolation", ZP,
  '''            raise LanguageError("Bad interpolation setting.", clause)''',
  '''            raise ValueError("Bad interpolation setting: %s" % clause)''')
m("C11", "filename-not-stamped", TP,
  '''            except TemplateError as exc:
                # normalize to str
                exc.token.filename = str(self.filename)
                raise''',
  '''            except TemplateError:
                raise''')
m("C11", "define-names-rsplit", TL,
  "            names = [n.strip() for n in name.strip('()').split(',')]",
  "            names = [n.strip() for n in name.strip('()').rsplit(',')]",
  )  # names become plain str: reserved-name errors raised in compiler.py
     # lose their position (shown by seeded C11-define-names-removeprefix)
m("C11", "split-parts-shrinks-before-split", TL,
  '''    parts = []
    start = i = 0
    length = len(arg)
    while i < length:
        if arg[i] == ';' and i not in protected:
            if i + 1 < length and arg[i + 1] == ';':
                i += 2
                continue
            parts.append(arg[start:i])
            start = i + 1
        i += 1
    parts.append(arg[start:])

    parts = [p.replace(";;", ";") for p in parts]''',
  '''    arg = arg.replace(";;", "\\0")
    parts = arg.split(';')
    parts = [p.replace("\\0", ";") for p in parts]''')
m("C11", "syntaxerror-plain-token", TA,
  '''            raise ExpressionError(exc.msg, stripped)''',
  '''            raise ExpressionError(exc.msg, str(stripped))''')
m("C11", "refactor-split-find", T,
  '''            if sep is None:
                # skip the whitespace run in front of this part
                offset = str.find(self, s, offset)''',
  '''            if sep is None:
                offset = str.index(self, s, offset)''', expect="silent")

# ---- C18 -------------------------------------------------------------------
m("C18", "stale-ns-key-kept", ZP,
  '''            ns_attrs.pop((attr['namespace'], attr['name']), None)
''', '')
m("C18", "stale-ns-key-wrong", ZP,
  '''            ns_attrs.pop((attr['namespace'], attr['name']), None)
''', '''            ns_attrs.pop((namespace, attr['name']), None)
''')
m("C18", "namespace-recorded-for-unprefixed-only", "parser.py",
  '''        else:
            ns = default
        # Several attributes may share one expanded name (``lang`` and
        # ``xml:lang`` on an element without a namespace): the mapping
        # holds one entry for them, each attribute knows its own.
        attribute['namespace'] = ns
''', '''        else:
            ns = default
            attribute['namespace'] = ns
''')
m("C18", "namespace-recorded-is-the-default", "parser.py",
  "        attribute['namespace'] = ns\n",
  "        attribute['namespace'] = default\n")
m("C18", "drop-set-paired-by-position-again", "tal.py",
  '''            for attribute in attrs
            if attribute['namespace'] in drop_ns or (
                attribute['namespace'] == XMLNS_NS and
                attribute['value'] in drop_ns)}''',
  '''            for attribute, (ns, value) in zip(attrs, ns_attributes)
            if ns in drop_ns or (
                ns == XMLNS_NS and
                attribute['value'] in drop_ns)}''')
m("C18", "any-prefix-converted", ZP,
  '''            namespace = namespaces.get(prefix)
            if namespace not in (TAL, METAL, I18N, META):
                # an ordinary data attribute
                continue
''',
  '''            namespace = namespaces[prefix]
''')
m("C18", "xml-prefix-converted", ZP,
  '''            if namespace not in (TAL, METAL, I18N, META):''',
  '''            if namespace is None:''')
m("C18", "unclosed-namespaces-leak", PA,
  '''        if unclosed:
            del self.namespaces[-unclosed:]
''', '')
m("C18", "end-tag-pops-two", PA,
  '''        try:
            namespace = self.namespaces.pop()
        except IndexError:''',
  '''        try:
            namespace = self.namespaces.pop()
            self.namespaces.pop()
        except IndexError:''')
m("C18", "meta-not-dropped", ZP,
  "    DROP_NS = TAL, METAL, I18N, META\n", "    DROP_NS = TAL, METAL, I18N\n")
m("C18", "xmlns-declarations-kept", TL,
  '''            if attribute['namespace'] in drop_ns or (
                attribute['namespace'] == XMLNS_NS and
                attribute['value'] in drop_ns)}''',
  '''            if attribute['namespace'] in drop_ns}''')
m("C18", "i18n-not-validated", ZP,
  "        validate_attributes(ns, I18N, i18n.WHITELIST)\n", "")
m("C18", "empty-tag-pushes", PA,
  '''    def visit_empty_tag(self, kind, token):
        namespace = self.namespaces[-1].copy()''',
  '''    def visit_empty_tag(self, kind, token):
        namespace = self.namespaces[-1].copy()
        self.namespaces.append(namespace)''')
m("C18", "unpack-skips-xmlns", PA,
  '''        name = attribute['name']
        value = attribute['value']

        if ':' in name:
            prefix = name.split(':')[0]
            name = name[len(prefix) + 1:]''',
  '''        name = attribute['name']
        value = attribute['value']
        if name == 'xmlns':
            continue

        if ':' in name:
            prefix = name.split(':')[0]
            name = name[len(prefix) + 1:]''')
m("C18", "drop-set-not-applied", TL,
  '''        if name in drop:
            continue

        attributes.append((''',
  '''        attributes.append((''')
m("C18", "data-attrs-always-on", ZP,
  '''        if self.enable_data_attributes:
            attrs = list(attrs)
            convert_data_attributes(ns, attrs, start['ns_map'])''',
  '''        if True:
            attrs = list(attrs)
            convert_data_attributes(ns, attrs, start['ns_map'])''')
m("C18", "refactor-unclosed-loop", PA,
  '''        if unclosed:
            del self.namespaces[-unclosed:]
''',
  '''        if unclosed:
            del self.namespaces[-unclosed:]
        unclosed = None
''', expect="silent")

# ---- C17 -------------------------------------------------------------------
UT = "utils.py"
m("C17", "bom-not-cut", UT,
  "            document = body[len(bom):].decode(encoding)",
  "            document = body.decode(encoding)")
m("C17", "table-not-reversed", UT,
  "    for bom, encoding in reversed(xml_prefixes)",
  "    for bom, encoding in xml_prefixes")
m("C17", "meta-before-declaration", UT,
  '''    if body.startswith(_xml_decl):
        content_type = "text/xml"
        encoding = read_xml_encoding(body) or default_encoding
    else:
        content_type, encoding = detect_encoding(body, default_encoding)
''',
  '''    content_type, encoding = detect_encoding(body, default_encoding)
    if content_type is None and body.startswith(_xml_decl):
        content_type = "text/xml"
        encoding = read_xml_encoding(body) or default_encoding
''')
m("C17", "bom-doc-always-html", UT,
  '''            if document.startswith("<?xml"):
                return document, encoding, "text/xml"
''', "")
m("C17", "bom-doc-no-meta-type", UT,
  '''                detect_encoding(document, encoding)[0]''',
  '''                None''')
m("C17", "bom-outcome-ifexp", UT,
  '''            if document.startswith("<?xml"):
                return document, encoding, "text/xml"
''', '''            if document.startswith("<?xml"):
                ctype = "text/xml"
                return document, encoding, ctype
''', expect="silent")
m("C17", "declared-encoding-ignored", UT,
  "        encoding = read_xml_encoding(body) or default_encoding",
  "        encoding = default_encoding")
m("C17", "content-type-not-stored-on-read", TP,
  '''        body, encoding, content_type = read_bytes(data, self.default_encoding)

        self.content_type = content_type or self.default_content_type
        self.content_encoding = encoding

        return body''',
  '''        body, encoding, content_type = read_bytes(data, self.default_encoding)

        self.content_encoding = encoding

        return body''')
m("C17", "newlines-rewritten-in-xml", "zpt/template.py",
  '''            body = body.replace('\\r\\n', '\\n').replace('\\r', '\\n')

        return MacroProgram(''',
  '''            pass

        body = body.replace('\\r\\n', '\\n').replace('\\r', '\\n')

        return MacroProgram(''')
m("C17", "utf16-be-row-wrong-codec", UT,
  "    (codecs.BOM_UTF16_BE, 'utf-16-be'),",
  "    (codecs.BOM_UTF16_BE, 'utf-16-le'),")
m("C17", "default-encoding-latin1", TP,
  '    default_encoding = "utf-8"', '    default_encoding = "latin-1"')
m("C17", "str-xml-not-detected", TP,
  '''        elif body.startswith('<?xml'):
            content_type = 'text/xml'
            encoding = read_xml_encoding(body.encode("utf-8"))''',
  '''        elif body.startswith('<?xml '):
            content_type = 'text/xml'
            encoding = read_xml_encoding(body.encode("utf-8"))''')
m("C17", "refactor-decode-var", UT,
  '''    return body.decode(encoding), encoding, content_type''',
  '''    return (body.decode(encoding), encoding, content_type)''',
  expect="silent")

# ---- C15 -------------------------------------------------------------------
ZT = "zpt/template.py"
LO = "loader.py"
m("C15", "option-dropped-from-key", ZT,
  "            'enable_data_attributes',\n            'enable_comment_interpolation',",
  "            'enable_comment_interpolation',")
m("C15", "bool-attrs-not-hashed", ZT,
  "        for attr in ('boolean_attributes', 'implicit_i18n_attributes'):\n            v = getattr(self, attr)\n            if v is not None:",
  "        for attr in ('implicit_i18n_attributes',):\n            v = getattr(self, attr)\n            if v is not None:")
m("C15", "new-option-unhashed", ZT,
  "            trim_attribute_space=self.trim_attribute_space,",
  "            trim_attribute_space=self.trim_attribute_space or self.compact_tags,")
m("C15", "write-final-name-directly", LO,
  '''            os.rename(fn, name)
            log.debug("compiling %s into byte-code..." % filename)''',
  '''            with open(name, 'wb') as out:
                out.write(header + encoded)
            os.remove(fn)
            log.debug("compiling %s into byte-code..." % filename)''')
m("C15", "temp-in-system-tmp", LO,
  "                prefix=base, suffix='.tmp', dir=self.path)",
  "                prefix=base, suffix='.tmp')")
m("C15", "temp-named-py", LO,
  "                prefix=base, suffix='.tmp', dir=self.path)",
  "                prefix=base, suffix='.py', dir=self.path)")
m("C15", "rename-before-close", LO,
  '''            try:
                try:
                    temp.write(header)
                    temp.write(encoded)
                finally:
                    temp.close()
            except BaseException:
                os.remove(fn)
                raise

            os.rename(fn, name)''',
  '''            try:
                os.rename(fn, name)
                try:
                    temp.write(header)
                    temp.write(encoded)
                finally:
                    temp.close()
            except BaseException:
                os.remove(fn)
                raise
''')
m("C15", "no-cleanup-on-failure", LO,
  '''            except BaseException:
                os.remove(fn)
                raise
''',
  '''            except BaseException:
                raise
''')
m("C15", "lock-not-released-on-error", LO,
  '''            return self._load(base, name)
        finally:
            release_lock()''',
  '''            result = self._load(base, name)
        except OSError:
            raise
        release_lock()
        return result''')
m("C15", "lookup-by-prefix", LO,
  '''        path = os.path.join(self.path, filename)
        if os.path.exists(path):''',
  '''        path = os.path.join(self.path, filename)
        import glob
        found = glob.glob(path[:-10] + '*')
        if found:
            path = found[0]
        if os.path.exists(path):''')
m("C15", "published-before-exec", LO,
  '''                module = module_from_spec(spec)
                loader.exec_module(module)
                sys.modules[base] = module''',
  '''                module = module_from_spec(spec)
                sys.modules[base] = module
                loader.exec_module(module)''')
m("C15", "body-not-hashed", TP,
  "        sha.update(body.encode('utf-8', 'surrogatepass'))\n", "")
m("C15", "key-of-other-names", TP,
  "        digest = self.digest(body, names)\n        program = self._cook(body, digest, names)",
  "        digest = self.digest(body, ())\n        program = self._cook(body, digest, names)")
m("C15", "refactor-digest-loop", ZT,
  "            'strict',\n            'mode',",
  "            'mode',\n            'strict',", expect="silent")

# ---- C16 -------------------------------------------------------------------
m("C16", "stale-macros-kept", TP,
  '''        for attr in [
            attr for attr in list(self.__dict__)
            if attr.startswith("_render") and attr[1:] not in functions
        ]:
            self.__dict__.pop(attr, None)

''', '')
m("C16", "flag-before-publish", TP,
  '''        for name, function in functions.items():
            setattr(self, "_" + name, function)
''',
  '''        self._cooked = True
        for name, function in functions.items():
            setattr(self, "_" + name, function)
''')
m("C16", "render-without-cook-check", TP,
  '''        rcontext: dict[str, Any] = {}
        self.cook_check()
        stream = self.output_stream_factory()''',
  '''        rcontext: dict[str, Any] = {}
        stream = self.output_stream_factory()''')
m("C16", "mtime-not-remembered", TP,
  '''            if mtime != self._v_last_read:
                self._cooked = False
                self._v_last_read = mtime''',
  '''            if mtime != self._v_last_read:
                self._cooked = False''')
m("C16", "reload-only-if-newer", TP,
  "            if mtime != self._v_last_read:",
  "            if self._v_last_read is None or mtime > self._v_last_read:")
m("C16", "content-type-stale-after-reload", TP,
  '''        body, encoding, content_type = read_bytes(data, self.default_encoding)

        self.content_type = content_type or self.default_content_type
        self.content_encoding = encoding

        return body''',
  '''        body, encoding, content_type = read_bytes(data, self.default_encoding)

        if getattr(self, "content_type", None) is None:
            self.content_type = content_type or self.default_content_type
            self.content_encoding = encoding

        return body''')
m("C16", "last-match-wins", LO,
  '''                        path = os.path.join(path, spec)
                        if os.path.exists(path):
                            package_name = None
                            spec = path
                            break''',
  '''                        path = os.path.join(path, spec)
                        if os.path.exists(path):
                            package_name = None
                            found = path
                            continue''')
m("C16", "extension-always-added", LO,
  "        if self.default_extension is not None and '.' not in spec:",
  "        if self.default_extension is not None:")
m("C16", "relative-dir-last", ZT,
  "                search_path.insert(0, path)  # type: ignore[arg-type]",
  "                search_path.append(path)  # type: ignore[arg-type]")
m("C16", "registry-bypassed", LO,
  '''        template = self.registry.get(key)
        if template is None:''',
  '''        template = None
        if template is None:''')
m("C16", "missing-template-returns-none", LO,
  '''                else:
                    raise ValueError("Template not found: %s." % spec)''',
  '''                else:
                    return None''')
m("C16", "refactor-cook-check-local", TP,
  '''        if self.auto_reload:
            mtime = self.mtime()

            if mtime != self._v_last_read:''',
  '''        if self.auto_reload:
            mtime = self.mtime()
            if mtime != self._v_last_read:''', expect="silent")

# ---- C19 -------------------------------------------------------------------
m("C19", "strict-changes-escaping", C,
  '''        if not char_escape:
            return self._convert_structure(target, char_escape)
''',
  '''        if not char_escape or getattr(self, "strict", True) is False:
            return self._convert_structure(target, char_escape)
''')
m("C19", "strict-read-in-compiler", C,
  '''        assignment = self._engine(node.expression, store("__value"))

        if len(node.names) != 1:''',
  '''        assignment = self._engine(node.expression, store("__value"))
        if not self._engine.strict:
            assignment = list(assignment)

        if len(node.names) != 1:''')
m("C19", "nonstrict-swallows-error", C,
  '''            stmts += [
                TokenRef(exc.token),
                ast.Raise(exc=load("__exc"))
            ]''',
  '''            stmts += [
                TokenRef(exc.token),
            ]''')
m("C19", "nonstrict-raises-other-error", C,
  '''                ast.Raise(exc=load("__exc"))
            ]''',
  '''                ast.Raise(exc=load("RuntimeError"))
            ]''')
m("C19", "nonstrict-no-tokenref", C,
  '''            stmts += [
                TokenRef(exc.token),
                ast.Raise(exc=load("__exc"))
            ]''',
  '''            stmts += [
                ast.Raise(exc=load("__exc"))
            ]''')
m("C19", "strict-not-passed", TP,
  "            builtins=builtins,\n            strict=self.strict\n        )",
  "            builtins=builtins,\n        )")
m("C19", "strict-not-hashed", ZT,
  "            'strict',\n            'mode',", "            'mode',")
m("C19", "handler-catches-all-when-nonstrict", C,
  '''        except ExpressionError as exc:
            if self.strict:
                raise
''',
  '''        except Exception as exc:
            if self.strict:
                raise
''')
m("C19", "emitter-bypasses-transformer", C,
  '''    def visit_Alias(self, node):
        assert len(node.names) == 1
        name = node.names[0]
        target = self._aliases[-1][name] = identifier(name, id(node))
        return self._engine(node.expression, target)''',
  '''    def visit_Alias(self, node):
        assert len(node.names) == 1
        name = node.names[0]
        target = self._aliases[-1][name] = identifier(name, id(node))
        return self._engine._translate(node.expression, target)''')
m("C19", "refactor-strict-local", C,
  '''        except ExpressionError as exc:
            if self.strict:
                raise

            p = pickle.dumps(exc, -1)''',
  '''        except ExpressionError as exc:
            if self.strict:
                raise

            p = pickle.dumps(exc, -1)  # deferred''', expect="silent")

# ---- C20 -------------------------------------------------------------------
PG = "program.py"
m("C20", "text-token-classified", PG,
  '''        if mode == "text":
            # In text mode, there is no markup: every token is character
            # data, even if it happens to start with "<".
            parser = (("text", (token, )) for token in tokens)
        else:
            parser = ElementParser(
                tokens, self.DEFAULT_NAMESPACES, self.restricted_namespace
            )''',
  '''        parser = ElementParser(
            tokens, self.DEFAULT_NAMESPACES, self.restricted_namespace
        )''')
m("C20", "text-mode-escapes", ZT,
  '''            escape=True if self.mode == "xml" else False,''',
  '''            escape=True,''')
m("C20", "text-skips-empty-lines", PG,
  '''            parser = (("text", (token, )) for token in tokens)''',
  '''            parser = (("text", (token, )) for token in tokens if token.strip())''')
m("C20", "text-file-returns-str", ZT,
  "        return result.encode(self.encoding or 'utf-8')",
  "        return result")
m("C20", "text-file-always-utf8", ZT,
  "        return result.encode(self.encoding or 'utf-8')",
  "        return result.encode('utf-8')")
m("C20", "visit-text-always-escapes", ZP,
  '''            char_escape = ('&', '<', '>') if self.escape else ()
            expression = nodes.Substitution(node, char_escape)
            # In text mode''',
  '''            char_escape = ('&', '<', '>')
            expression = nodes.Substitution(node, char_escape)
            # In text mode''')
m("C20", "text-class-xml-mode", ZT,
  '''    but uses the expression engine to substitute variables.
    """

    mode = "text"''',
  '''    but uses the expression engine to substitute variables.
    """

    mode = "xml"''')
m("C20", "plain-text-strips", ZP,
  "        node = node.replace('$$', '$')\n\n        if not translation:",
  "        node = node.replace('$$', '$').strip()\n\n        if not translation:")
m("C20", "false-option-ignored", ZP,
  "            if value is not None:\n                setattr(self, attribute, value)",
  "            if value:\n                setattr(self, attribute, value)")
m("C20", "refactor-text-branch", PG,
  '''        if mode == "text":''', '''        if "text" == mode:''', expect="silent")

# ---- C14 -------------------------------------------------------------------
m("C14", "render-stores-on-instance", TP,
  '''        self.cook_check()
        stream = self.output_stream_factory()''',
  '''        self.cook_check()
        stream = self._stream = self.output_stream_factory()''')
m("C14", "shared-stream", TP,
  '''        stream = self.output_stream_factory()
        target_language = __kw.get("target_language")''',
  '''        stream = self.__dict__.setdefault("_stream", [])
        del stream[:]
        target_language = __kw.get("target_language")''')
m("C14", "rcontext-class-level", TP,
  '''        rcontext: dict[str, Any] = {}
        self.cook_check()''',
  '''        rcontext = self._rcontext
        self.cook_check()''')
m("C14", "repeat-dict-cached", ZT,
  '''        if 'repeat' not in _kw:
            _kw['repeat'] = RepeatDict({})''',
  '''        if 'repeat' not in _kw:
            if not hasattr(self, '_repeat'):
                self._repeat = RepeatDict({})
            _kw['repeat'] = self._repeat''')
m("C14", "mutable-module-global", C,
  '''        body += template("__marker = object()")''',
  '''        body += template("__marker = object()")
        body += template("__seen = []")''')
m("C14", "translate-ident-per-name", C,
  '''        msgid = identifier("msgid", id(node))''',
  '''        msgid = identifier("msgid", node.msgid)''', expect="silent")
# (the msgid local is written and read after the body: it does not have to
#  survive a child emission, so a per-name suffix is harmless)
m("C14", "repeat-index-shared", C,
  '''        index = identifier("__index", id(node))''',
  '''        index = identifier("__index")''')
m("C14", "flag-first", TP,
  '''        for name, function in functions.items():
            setattr(self, "_" + name, function)
''',
  '''        self._cooked = True
        for name, function in functions.items():
            setattr(self, "_" + name, function)
''')
m("C14", "builtins-updated-in-place", TP,
  '''        builtins_dict = self.builtins.copy()
        builtins_dict.update(self.extra_builtins)''',
  '''        builtins_dict = self.builtins
        builtins_dict.update(self.extra_builtins)''')
m("C14", "lock-released-early", LO,
  '''        acquire_lock()
        try:
            module = sys.modules.get(base)''',
  '''        acquire_lock()
        release_lock()
        try:
            module = sys.modules.get(base)''')
m("C14", "class-level-registry", LO,
  '''        self.search_path = search_path
        self.registry = {}
        self.kwargs = kwargs''',
  '''        self.search_path = search_path
        self.kwargs = kwargs''', expect="silent")   # annotation only; no class-level dict
m("C14", "refactor-render-order", TP,
  '''        econtext = Scope(__kw)
        rcontext: dict[str, Any] = {}''',
  '''        rcontext: dict[str, Any] = {}
        econtext = Scope(__kw)''', expect="silent")

# ---- C08 -------------------------------------------------------------------
m("C08", "item-gets-fresh-iterator", TL,
  "        self[key] = RepeatItem(iterator, length)",
  "        self[key] = RepeatItem(iter(iterable), length)")
m("C08", "iterable-not-materialised", TL,
  "        iterable = list(iterable) if iterable is not None else ()",
  "        iterable = iterable if iterable is not None else ()")
m("C08", "none-not-handled", TL,
  "        iterable = list(iterable) if iterable is not None else ()",
  "        iterable = list(iterable)")
m("C08", "end-off-by-one", TL,
  "        return self.index == self.length - 1",
  "        return self.index == self.length")
m("C08", "number-zero-based", TL,
  "        return self.index + 1\n\n    @descriptorstr\n    def odd",
  "        return self.index\n\n    @descriptorstr\n    def odd")
m("C08", "odd-even-swapped", TL,
  "        return self.index % 2 == 1 and 'odd' or ''",
  "        return self.index % 2 == 0 and 'odd' or ''")
m("C08", "index-off-by-one", TL,
  "        return self.length - remaining - 1",
  "        return self.length - remaining")
m("C08", "separator-after-last", C,
  '''            "if INDEX > 0: __append(WHITESPACE)",''',
  '''            "if INDEX >= 0: __append(WHITESPACE)",''')
m("C08", "separator-before-decrement", C,
  '''        inner += template("index -= 1", index=index)

        # For items up to N - 1, emit repeat whitespace
        inner += template(
            "if INDEX > 0: __append(WHITESPACE)",
            INDEX=index, WHITESPACE=ast.Constant(node.whitespace)
        )''',
  '''        # For items up to N - 1, emit repeat whitespace
        inner += template(
            "if INDEX > 0: __append(WHITESPACE)",
            INDEX=index, WHITESPACE=ast.Constant(node.whitespace)
        )
        inner += template("index -= 1", index=index)''')
m("C08", "names-not-prebound", C,
  '''        outer += [ast.Assign(
            targets=[store_econtext(name)
                     for name in node.names],
            value=load("None"))
        ]
''', '')
m("C08", "counter-shared", C,
  '''        index = identifier("__index", id(node))''',
  '''        index = identifier("__index")''')
m("C08", "whitespace-from-after-children", ZP,
  "        # Set element-local whitespace\n        whitespace = self._whitespace\n",
  "        # Set element-local whitespace\n        whitespace = '\\n'\n")
m("C08", "roman-zero-based", TL,
  "        n = self.index + 1\n        s = \"\"",
  "        n = self.index\n        s = \"\"")
m("C08", "refactor-number", TL,
  "        return self.index + 1\n\n    @descriptorstr\n    def odd",
  "        return 1 + self.index\n\n    @descriptorstr\n    def odd",
  expect="silent")

# ---- C06 -------------------------------------------------------------------
m("C06", "comment-ignores-switch", ZP,
  '''        if not self._interpolation[-1] or '${' not in node:
            return nodes.Text(node)

        char_escape = ('&', '<', '>') if self.escape else ()
        expression = nodes.Substitution(node[4:-3], char_escape)''',
  '''        if '${' not in node:
            return nodes.Text(node)

        char_escape = ('&', '<', '>') if self.escape else ()
        expression = nodes.Substitution(node[4:-3], char_escape)''')
m("C06", "question-comment-interpolated", ZP,
  '''        if node.startswith('<!--?'):
            return nodes.Text('<!--' + node[5:])
''', '')
m("C06", "question-comment-strips-a-set", ZP,
  "            return nodes.Text('<!--' + node[5:])",
  "            return nodes.Text('<!--' + node.lstrip('<!-?'))")
m("C06", "question-comment-removeprefix", ZP,
  "            return nodes.Text('<!--' + node[5:])",
  "            return nodes.Text('<!--' + node.removeprefix('<!--?'))",
  expect="silent")
m("C06", "switch-not-popped", ZP,
  "        self._switches.pop()\n        self._interpolation.pop()\n",
  "        self._switches.pop()\n")
m("C06", "switch-not-inherited", ZP,
  "            INTERPOLATION = self._interpolation[-1]",
  "            INTERPOLATION = True")
m("C06", "entities-not-decoded", C,
  '''            translate=node.translation,
            decode_htmlentities=node.decode_htmlentities
        )''',
  '''            translate=node.translation,
            decode_htmlentities=False
        )''')
m("C06", "decode-after-parse", C,
  '''                if self.decode_htmlentities:
                    string = decode_htmlentities(string)

                if string:''',
  '''                if string:''')
m("C06", "shrink-from-front", C,
  "                        matched = matched[m.start():m.end() - 1]",
  "                        matched = matched[m.start() + 1:m.end()]")
m("C06", "shrink-swallows-error", C,
  '''                        m = self.regex.search(matched)
                        if m is None:
                            raise

                        continue''',
  '''                        m = self.regex.search(matched)
                        if m is None:
                            break

                        continue''')
m("C06", "advance-too-little", C,
  "            text = text[len(m.group()):]\n",
  "            text = text[len(string) + 3:]\n")
m("C06", "undouble-before-odd-test", C,
  '''                i = 0
                length = len(part)
                while i < length and part[-i - 1] == '$':
                    i += 1
                skip = i & 1
                part = part.replace('$$', '$')''',
  '''                part = part.replace('$$', '$')
                i = 0
                length = len(part)
                while i < length and part[-i - 1] == '$':
                    i += 1
                skip = i & 1''')
m("C06", "tail-not-undoubled", C,
  '''            if m is None:
                text = text.replace('$$', '$')
                nodes.append(ast.Constant(text))
                break''',
  '''            if m is None:
                nodes.append(ast.Constant(text))
                break''')
m("C06", "even-run-skips", C,
  "                skip = i & 1\n", "                skip = not (i & 1)\n")
m("C06", "text-keeps-double-dollar", ZP,
  "        node = node.replace('$$', '$')\n\n        if not translation:",
  "        if not translation:")
m("C06", "lone-dollar-name-interpolated", ZP,
  '''            return nodes.Interpolation(
                expression, True, translation,
                decode_htmlentities=bool(self.escape),''',
  '''            return nodes.Interpolation(
                expression, False, translation,
                decode_htmlentities=bool(self.escape),''')
m("C06", "refactor-switch-names", ZP,
  "        self._switches.pop()\n        self._interpolation.pop()\n",
  "        self._interpolation.pop()\n        self._switches.pop()\n",
  expect="silent")

# ---- later additions ---------------------------------------------------------
m("C13", "handler-indexes-unset-token", C,
  '''            "econtext[key] = cls(__exc, __tokens[__token][1:3] "
            "if __token is not None else (None, None))\\n"''',
  '''            "econtext[key] = cls(__exc, __tokens[__token][1:3])\\n"''')
m("C13", "fallback-reuses-filtered-attributes", ZP,
  '''                        [nodes.Attribute(
                            attr.name, attr.expression, attr.quote,
                            attr.eq, attr.space, attr.default, [])
                         for attr in attributes if''',
  '''                        [attr for attr in attributes if''')
m("C12", "filler-without-handler", C,
  '''                emit_func_convert_and_escape("__quote") + \\
                self._record_errors(
                    self.visit_Context(slot) or [ast.Pass()]
                )''',
  '''                emit_func_convert_and_escape("__quote") + \\
                (self.visit_Context(slot) or [ast.Pass()])''')
m("C12", "filler-called-with-stale-token", C,
  '''        orelse = template("__token = None") + self._merge_globals(''',
  '''        orelse = self._merge_globals(''')
m("C11", "codeblock-syntaxerror-escapes", C,
  '''        try:
            stmts = template(textwrap.dedent(node.source.strip('\\n')))
        except SyntaxError as exc:
            raise ExpressionError(exc.msg, node.source)''',
  '''        stmts = template(textwrap.dedent(node.source.strip('\\n')))''')
m("C20", "text-mode-decodes-entities", ZP,
  '''                decode_htmlentities=bool(self.escape),''',
  '''                decode_htmlentities=True,''')
m("C06", "markup-text-stops-decoding", ZP,
  '''                decode_htmlentities=bool(self.escape),''',
  '''                decode_htmlentities=False,''')


# --- round 2 additions -------------------------------------------------------
m("C09", "filler-uses-writers-append", C,
  '''            body = template("__append = __stream.append") + \\
                template("__token = None") + \\''',
  '''            body = template("__token = None") + \\''')
m("C09", "filler-inside-writers-capture", C,
  "            body = [TranslationContext(body, None, None)]\n", "")
m("C10", "filler-shares-convert-helpers", C,
  '''                emit_func_convert("__convert") + \\
                emit_func_convert_and_escape("__quote") + \\
                self._record_errors(''',
  '''                self._record_errors(''')
m("C12", "handled-frames-kept", C,
  '''                      template("rcontext.pop('__error__', None)") +
''', "")
m("C05", "onerror-scope-not-restored", C,
  '''                body=(scope_restore +
                      error_backup +''',
  '''                body=(error_backup +''')
m("C05", "onerror-scope-restored-without-globals", C,
  '''            scope=scope, DICT=Builtin("dict")
        ) + self._merge_changed_globals(snapshot)''',
  '''            scope=scope, DICT=Builtin("dict")
        )''')
m("C05", "onerror-reapplies-all-globals", C,
  '''            scope=scope, DICT=Builtin("dict")
        ) + self._merge_changed_globals(snapshot)''',
  '''            scope=scope, DICT=Builtin("dict")
        ) + template("econtext.update(rcontext)")''')
m("C05", "onerror-scope-snapshot-shared", C,
  '''        scope = identifier("__scope", id(node))
        snapshot = identifier("__globals", id(node))
        body += template(''',
  '''        scope = identifier("__scope", node.name)
        snapshot = identifier("__globals", id(node))
        body += template(''')
m("C09", "macro-scope-copy-shared", C,
  '''        scope = identifier("__scope", id(node))
        callbacks = template(''',
  '''        scope = "__scope"
        callbacks = template(''')
m("C11", "location-counts-cr", "tokenize.py",
  "        line = body.count('\\n')",
  "        line = body.count('\\n') + body.count('\\r')")
m("C11", "location-bounded-count-refactor", "tokenize.py",
  '''        body = self.source[:self.pos]
        line = body.count('\\n')''',
  '''        body = self.source[:self.pos]
        line = self.source.count('\\n', 0, self.pos)''', expect="silent")
m("C17", "meta-search-bounded", "utils.py",
  "    match = RE_META.search(body)",
  "    match = RE_META.search(body, 0, 2048)")
m("C16", "retire-only-on-reload", "template.py",
  '''        for attr in [
            attr for attr in list(self.__dict__)
            if attr.startswith("_render") and attr[1:] not in functions
        ]:
            self.__dict__.pop(attr, None)''',
  '''        for attr in [
            attr for attr in self.__dict__
            if attr.startswith("_render") and attr[1:] not in functions
        ] if self.__dict__.get("_cooked") else []:
            self.__dict__.pop(attr, None)''')
m("C16", "retire-list-guard-refactor", "template.py",
  '''        for attr in [
            attr for attr in list(self.__dict__)
            if attr.startswith("_render") and attr[1:] not in functions
        ]:
            self.__dict__.pop(attr, None)''',
  '''        stale = [
            attr for attr in list(self.__dict__)
            if attr.startswith("_render") and attr[1:] not in functions
        ]
        if stale:
            for attr in stale:
                self.__dict__.pop(attr, None)''', expect="silent")
m("C14", "i18n-attrs-sorted-set-refactor", "tal.py",
  '''    for name in i18n_attributes:
        attr = name.lower()''',
  '''    for name in sorted(set(i18n_attributes), key=list(i18n_attributes).index):
        attr = name.lower()''', expect="silent")
m("C19", "expressionerror-is-lookuperror", "exc.py",
  "class ExpressionError(LanguageError):",
  "class ExpressionError(LanguageError, KeyError):")
m("C04", "cache-rebound-per-macro", C,
  '''    def visit_Macro(self, node):
        body = []
''',
  '''    def visit_Macro(self, node):
        body = []
        self._expression_cache = {}
''')
m("C03", "static-attr-value-stripped", C,
  "            s = attr_format % node.expression.value\n",
  "            s = attr_format % node.expression.value.strip()\n")
m("C07", "dict-exclude-titlecased", ZP,
  "        names = [attr[0] for attr in prepared]",
  "        names = [attr[0] and attr[0].title() for attr in prepared]")
m("C10", "wrapper-swallows-context", ZT,
  '''                msgid: str | bytes,
                txl: TranslationFunction = translate,  # type: ignore''',
  '''                msgid: str | bytes,
                context: Any = None,
                txl: TranslationFunction = translate,  # type: ignore''')
m("C12", "bases-not-linearisable", "utils.py",
  "        bases = (base, ) if issubclass(base, cls) else (cls, base)\n",
  "        bases = (cls, base)\n")
m("C03", "lookahead-class-letters", "parser.py",
  r"""    r'(?P<simple_value>(?![ \n\t\r]*=)))',""",
  r"""    r'(?P<simple_value>(?![ \\n\\t\\r]*=)))',""")
m("C15", "class-name-after-body", "template.py",
  '''        sha.update(class_name + b'\\n')
        # (as a literal: a file name is arbitrary text, a line break in
        # it must not end the field)
        sha.update(
            repr(filename).encode('utf-8', 'surrogatepass') + b'\\n')
        sha.update(body.encode('utf-8', 'surrogatepass'))''',
  '''        sha.update(
            repr(filename).encode('utf-8', 'surrogatepass') + b'\\n')
        sha.update(body.encode('utf-8', 'surrogatepass'))
        sha.update(class_name)''')
m("C15", "body-encoding-ignores-errors", "template.py",
  "        sha.update(body.encode('utf-8', 'surrogatepass'))",
  "        sha.update(body.encode('utf-8', 'ignore'))")
m("C15", "content-type-left-out-of-key", ZT,
  "            'content_type',\n", "")
m("C15", "stable-name-for-closures", ZT,
  '''    if module and name and '<' not in name and \\
            getattr(value, '__closure__', None) is None and \\
            (owner is None or isinstance(owner, (type, ModuleType))):''',
  '''    if module and name and \\
            (owner is None or isinstance(owner, (type, ModuleType))):''')
m("C15", "stable-name-for-bound-methods", ZT,
  '''            getattr(value, '__closure__', None) is None and \\
            (owner is None or isinstance(owner, (type, ModuleType))):''',
  '''            getattr(value, '__closure__', None) is None:''')
m("C14", "retire-walks-live-dict", "template.py",
  "            attr for attr in list(self.__dict__)\n",
  "            attr for attr in self.__dict__\n")
m("C10", "onerror-settings-not-restored", C,
  '''        scope_restore += template(
            "(__i18n_domain, __i18n_context, target_language) = i18n",
            i18n=i18n
        )
''', "")
m("C10", "onerror-settings-snapshot-shared", C,
  '''        i18n = identifier("__i18n", id(node))''',
  '''        i18n = identifier("__i18n", node.name)''')
m("C04", "lambda-defaults-inside-scope", "astutil.py",
  '''        args = node.args
        args.defaults = [self.visit(d) for d in args.defaults]
        args.kw_defaults = [
            d if d is None else self.visit(d) for d in args.kw_defaults
        ]

        # A nested scope sees the names bound by the enclosing ones.
        self.scopes.append(set(self.scopes[-1]))
        try:''',
  '''        args = node.args

        # A nested scope sees the names bound by the enclosing ones.
        self.scopes.append(set(self.scopes[-1]))
        try:
            args.defaults = [self.visit(d) for d in args.defaults]
            args.kw_defaults = [
                d if d is None else self.visit(d) for d in args.kw_defaults
            ]''')
m("C05", "global-multi-name-whole-value", C,
  '''                    "rcontext[KEY] = econtext[KEY]", KEY=ast.Constant(''',
  '''                    "rcontext[KEY] = __value", KEY=ast.Constant(''')
m("C05", "functiondef-no-scope", "astutil.py",
  '''        # The parameters and local names belong to the function only.
        self.scopes.append(set(self.scopes[-1]))
        try:
            for arg in args.posonlyargs + args.args + args.kwonlyargs:
                self.visit(arg)
            for arg in (args.vararg, args.kwarg):
                if arg is not None:
                    self.visit(arg)
            for child in ast.walk(node):''',
  '''        # The parameters and local names belong to the function only.
        self.scopes.append(self.scopes[-1])
        try:
            for arg in args.posonlyargs + args.args + args.kwonlyargs:
                self.visit(arg)
            for arg in (args.vararg, args.kwarg):
                if arg is not None:
                    self.visit(arg)
            for child in ast.walk(node):''')
m("C11", "pi-text-plain-str", ZP,
  '''            if isinstance(name, Token):
                # keep the position: expressions in the instruction
                # report errors against the template source
                text = Token(text, name.pos - 2, name.source, name.filename)
''', "")
m("C17", "encoding-searched-in-whole-document", "utils.py",
  "        match = RE_ENCODING.search(body, 0, end if end >= 0 else len(body))",
  "        match = RE_ENCODING.search(body)")
m("C17", "meta-one-order-only", "utils.py",
  '''    _META_HTTP_EQUIV + r'\\s+' + _META_CONTENT + '|' +
    _META_CONTENT + r'\\s+' + _META_HTTP_EQUIV +''',
  '''    _META_HTTP_EQUIV + r'\\s+' + _META_CONTENT +''')
m("C06", "hex-marker-lowercase-only", "utils.py",
  "entity_re = re.compile(r'&(?:(#)([xX]?))?(\\d{1,5}|\\w{1,8});')",
  "entity_re = re.compile(r'&(?:(#)(x?))?(\\d{1,5}|\\w{1,8});')")
m("C06", "hex-marker-without-hash", "utils.py",
  "entity_re = re.compile(r'&(?:(#)([xX]?))?(\\d{1,5}|\\w{1,8});')",
  "entity_re = re.compile(r'&(#?)([xX]?)(\\d{1,5}|\\w{1,8});')")
m("C06", "apos-not-decoded", "utils.py",
  "        cp = n2cp.get(ent) or (39 if ent == 'apos' else None)",
  "        cp = n2cp.get(ent)")
m("C02", "unquoted-value-keeps-empty-quote", ZP,
  '''            if not quote and eq and (
                expr is not None or (text is not None and '${' in text)
            ):
                quote = '"'
''', "")
m("C07", "unquoted-value-keeps-empty-quote", ZP,
  '''            if not quote and eq and (
                expr is not None or (text is not None and '${' in text)
            ):
                quote = '"'
''', "")
m("C14", "translate-mapping-in-set-order", C,
  "            for name in sorted(names):\n",
  "            for name in set(names):\n")
m("C14", "refactor-translate-mapping-in-document-order", C,
  "            for name in sorted(names):\n",
  "            for name in names:\n", expect="silent")
m("C08", "indent-counted-in-blanks", ZP,
  '''                indent if not indent.strip() else " " * len(indent)''',
  '''                " " * len(indent)''')
m("C14", "registry-key-ignores-keywords", LO,
  "        key = args + tuple(sorted(kwargs.items()))\n",
  "        key = args\n")

m("C14", "stamp-before-flag-down", "template.py",
  """                self._cooked = False
                self._v_last_read = mtime
""", """                self._v_last_read = mtime
                self._cooked = False
""")

m("C05", "identifier-prefix-unmangled", C,
  'return "__{}_{}".format(mangle(prefix), mangle(suffix or id(prefix)))',
  'return "__{}_{}".format(prefix, mangle(suffix or id(prefix)))')
m("C08", "identifier-prefix-unmangled", C,
  'return "__{}_{}".format(mangle(prefix), mangle(suffix or id(prefix)))',
  'return "__{}_{}".format(prefix, mangle(suffix or id(prefix)))')

m("C12", "allocator-without-arguments", "utils.py",
  "            inst = allocator(new, *exc.args)",
  "            inst = allocator(new)")

for _p in ("C10", "C07"):
    m(_p, "translate-offered-none", C,
      '''    if target is not None:
        target = translate(
            msgid,
            default=default,
            domain=__i18n_domain,
            context=__i18n_context,
            target_language=target_language
        )""")''',
      '''    target = translate(
        msgid,
        default=default,
        domain=__i18n_domain,
        context=__i18n_context,
        target_language=target_language
    )""")''')

m("C10", "implicit-text-ignores-explicit-element", ZP,
  '''        translation = self.implicit_i18n_translate and \\
            self._implicit_translation[-1]
''', '''        translation = self.implicit_i18n_translate
''')
m("C10", "explicit-element-keeps-implicit-on", ZP,
  '''        if (I18N, 'translate') in ns:
            IMPLICIT = False
        elif (I18N, 'name') in ns:''',
  '''        if (I18N, 'name') in ns:''')
m("C10", "implicit-stack-not-popped", ZP,
  "        self._implicit_translation.pop()\n", "")

m("C10", "default-content-untranslated", ZP,
  '''                if translate:
                    # When the value is ``default``, the original
                    # content stands in for it: it is the message then.
                    content = nodes.Translate('', content)
''', "")

for _p in ("C05", "C09"):
    m(_p, "macro-merge-all-globals", C,
      '''        return template(
            "econtext.update(\\n"
            "    __item for __item in rcontext.items()\\n"
            "    if SNAPSHOT.get(__item[0], __marker) is not __item[1])",
            SNAPSHOT=snapshot)''',
      '''        return template("econtext.update(rcontext)")''')
    m(_p, "macro-merge-new-names-only", C,
      '''            "    if SNAPSHOT.get(__item[0], __marker) is not __item[1])",''',
      '''            "    if __item[0] not in SNAPSHOT)",''')
m("C05", "macro-merge-snapshot-shared", C,
  '''        snapshot = identifier("__globals", id(node))
        return self._snapshot_globals(snapshot) + call + \\''',
  '''        snapshot = "__globals"
        return self._snapshot_globals(snapshot) + call + \\''')
m("C09", "macro-merge-snapshot-after-call", C,
  '''        return self._snapshot_globals(snapshot) + call + \\
''', '''        return call + self._snapshot_globals(snapshot) + \\
''')

for _p in ("C05", "C09"):
    m(_p, "filler-globals-not-merged", C,
      '''        orelse = template("__token = None") + self._merge_globals(
            node, template(
                "SLOT(__stream, econtext.copy(), rcontext)",
                SLOT=name))''',
      '''        orelse = template("__token = None") + template(
            "SLOT(__stream, econtext.copy(), rcontext)",
            SLOT=name)''')

m("C13", "filler-registered-without-on-error", ZP,
  "            slots.append(nodes.FillSlot(clause, wrap(slot, ON_ERROR)))",
  "            slots.append(nodes.FillSlot(clause, slot))")
m("C13", "macro-registered-without-on-error", ZP,
  "            self._macros[clause] = wrap(slot, ON_ERROR)",
  "            self._macros[clause] = slot")
m("C13", "macro-reference-wrapped-again", ZP,
  "            slot = nodes.UseInternalMacro(clause)\n            ON_ERROR = skip\n",
  "            slot = nodes.UseInternalMacro(clause)\n")

m("C03", "unterminated-end-tag-loses-blanks", "parser.py",
  '''    if d['suffix'] is None:
        # Not terminated: what follows the name is kept as it is.
        d['suffix'] = token

''', "")

m("C03", "unquoted-value-stops-at-slash", "parser.py",
  """    r'(?P<alt_value>(?:[^\\s>/]|/(?!>))+))|'""",
  """    r'(?P<alt_value>[^\\s\\'">/]+))|'""", expect="silent")
# (silent since 32ba974: text the attribute pattern skips is kept, so a
# narrower value class no longer changes what a statement-free tag renders)
m("C03", "unquoted-value-stops-at-quote", "parser.py",
  """    r'(?P<alt_value>(?:[^\\s>/]|/(?!>))+))|'""",
  """    r'(?P<alt_value>(?:[^\\s>/\\'"]|/(?!>))+))|'""", expect="silent")

m("C11", "valueless-attribute-plain-value", "parser.py",
  "            attr['value'] = simple_value\n",
  "            attr['value'] = ''\n")

m("C11", "syntax-error-reported-with-working-copy", "tales.py",
  "            raise ExpressionError(exc.msg, stripped)",
  "            raise ExpressionError(exc.msg, string)")

m("C12", "formatter-reopens-file-strictly", "exc.py",
  "                    f = open(filename, errors='replace')\n",
  "                    f = open(filename)\n")

m("C08", "item-unpacked-per-context", C,
  '''        assignment = [ast.Assign(targets=targets[:1], value=load("__item"))]''',
  '''        assignment = [ast.Assign(targets=targets, value=load("__item"))]''')

m("C07", "attribute-expression-decoded-again", ZP,
  '''                        value = nodes.Substitution(
                            expr,''',
  '''                        value = nodes.Substitution(
                            decode_htmlentities(expr),''')

m("C03", "gap-text-dropped", "parser.py",
  '''        if m.start() > pos:
            # Text that matches no attribute is kept as it is written,
            # in front of the attribute that follows it.
            attr['space'] = token[pos:m.start()] + attr['space']
''', "")

m("C13", "name-block-inside-on-error", ZP,
  '''        return wrap(
            slot,
            NAME,
            ON_ERROR
        )''',
  '''        return wrap(
            slot,
            ON_ERROR,
            NAME
        )''')

m("C11", "unknown-expression-type-bare-lookuperror", "tales.py",
  '''            raise UnknownExpressionType(
                "Unknown expression type: %s." % str(exc), token
            )''',
  '''            raise LookupError(
                "Unknown expression type: %s." % str(exc)
            )''')
m("C11", "undefined-prefix-bare-keyerror", "parser.py",
  '''                    raise UndefinedNamespacePrefix(
                        "Undefined namespace prefix: %s." % prefix, prefix)''',
  '''                    raise KeyError(
                        "Undefined namespace prefix: %s." % prefix)''')
m("C11", "unknown-expression-type-plain-token", "tales.py",
  "            token = expression[m.start(1):m.end(1)]\n",
  "            token = prefix\n")

for _p in ("C07", "C11"):
    m(_p, "multipart-statements-decoded-before-split", ZP,
      '''                if prefix == TAL and attr in tal.MULTIPART:
                    # split first (as written: ``;`` ends ``&amp;``),
                    # the parts are decoded by the statement parser
                    continue
''', "")
m("C07", "attributes-left-out-of-multipart", "tal.py",
  'MULTIPART = frozenset(["define", "repeat", "attributes"])',
  'MULTIPART = frozenset(["define", "repeat"])')

m("C03", "attribute-format-unescaped", C,
  '''                       node.quote).replace("%", "%%") + "%s" + node.quote''',
  '''                       node.quote) + "%s" + node.quote''')

m("C11", "match-tag-result-untested", "parser.py",
  '''    if m is None:
        # e.g. ``</`` that is not followed by a name
        raise ParseError("Malformed tag.", token)
''', "")

m("C06", "reference-conversion-unguarded", "utils.py",
  '''        except (ValueError, OverflowError):
            # not a number, or not a code point: leave it as it is
            return match.group()
        else:''',
  '''        except KeyError:
            return match.group()
        else:''')

# ---- repairs of round 7 (8f51479, ff91a87, d98e763, 4ec1f7d) ------------------
m("C15", "class-by-plain-name", "template.py",
  '''        qualified = "{}.{}".format(cls.__module__, cls.__qualname__)''',
  '''        qualified = cls.__name__''')
m("C15", "class-module-and-plain-name", "template.py",
  '''        qualified = "{}.{}".format(cls.__module__, cls.__qualname__)''',
  '''        qualified = "{}.{}".format(cls.__module__, cls.__name__)''')
m("C15", "refactor-class-key-percent", "template.py",
  '''        qualified = "{}.{}".format(cls.__module__, cls.__qualname__)''',
  '''        qualified = "%s.%s" % (cls.__module__, cls.__qualname__)''',
  expect="silent")
m("C18", "xmlns-takes-element-namespace", "parser.py",
  '''        elif name == 'xmlns':
            # The declaration of a default namespace: it is one on any
            # element, whatever prefix the element itself carries.
            ns = XMLNS_NS
        else:''',
  '''        else:''')
m("C18", "xmlns-prefix-test-swapped", "parser.py",
  '''        elif name == 'xmlns':
            # The declaration of a default namespace: it is one on any
            # element, whatever prefix the element itself carries.
            ns = XMLNS_NS''',
  '''        elif name != 'xmlns':
            ns = XMLNS_NS''')
m("C18", "refactor-xmlns-test-first", "parser.py",
  '''        elif name == 'xmlns':
            # The declaration of a default namespace: it is one on any
            # element, whatever prefix the element itself carries.
            ns = XMLNS_NS
        else:
            ns = default''',
  '''        elif name != 'xmlns':
            ns = default
        else:
            ns = XMLNS_NS''', expect="silent")
m("C05", "backup-by-mangled-name-only", C,
  '''        for i, name in enumerate(names):
            yield from template(
                "BACKUP = get(KEY, __marker)",
                BACKUP=identifier("backup%d_%s" % (i, name), id(names)),''',
  '''        for i, name in enumerate(names):
            yield from template(
                "BACKUP = get(KEY, __marker)",
                BACKUP=identifier("backup_%s" % name, id(names)),''')
m("C05", "backup-ordinal-constant", C,
  '''                BACKUP=identifier("backup%d_%s" % (i, name), id(names)),
                KEY=ast.Constant(str(name)),
            )

    def _leave_assignment(self, names):
        for i, name in enumerate(names):
            yield from template(
                "if BACKUP is __marker: del econtext[KEY]\\n"
                "else:                 econtext[KEY] = BACKUP",
                BACKUP=identifier("backup%d_%s" % (i, name), id(names)),''',
  '''                BACKUP=identifier("backup%d_%s" % (0, name), id(names)),
                KEY=ast.Constant(str(name)),
            )

    def _leave_assignment(self, names):
        for i, name in enumerate(names):
            yield from template(
                "if BACKUP is __marker: del econtext[KEY]\\n"
                "else:                 econtext[KEY] = BACKUP",
                BACKUP=identifier("backup%d_%s" % (0, name), id(names)),''')
m("C10", "name-variable-by-mangled-name-only", C,
  '''        suffix = "%d_%s" % (names[name], name)
        stream = identifier("stream_%s" % prefix, suffix)
        append = identifier("append_%s" % prefix, suffix)''',
  '''        stream = identifier("stream_%s" % prefix, name)
        append = identifier("append_%s" % prefix, name)''')
m("C10", "name-ordinal-constant", C,
  '''        names[node.name] = len(names)
        body = []''',
  '''        names[node.name] = 0
        body = []''')

# ---- repairs after round 8 (04d6ce9, a95e10c, 47c341b) ------------------------
m("C15", "fallback-name-without-identity", "zpt/template.py",
  '''    return "%s@%x" % (repr(value), id(value))''',
  '''    return repr(value)''')
m("C15", "refactor-fallback-name-format", "zpt/template.py",
  '''    return "%s@%x" % (repr(value), id(value))''',
  '''    return "{!r}@{:x}".format(value, id(value))''', expect="silent")
m("C03", "pi-name-leading-word-only", "parser.py",
  r'''    r'^<\?(?P<name>[^\s?]+)(?P<text>.*?)\?>', re.DOTALL)''',
  r'''    r'^<\?(?P<name>\w+)(?P<text>.*?)\?>', re.DOTALL)''')
m("C03", "pi-name-without-colon", "parser.py",
  r'''    r'^<\?(?P<name>[^\s?]+)(?P<text>.*?)\?>', re.DOTALL)''',
  r'''    r'^<\?(?P<name>[\w.-]+)(?P<text>.*?)\?>', re.DOTALL)''')
m("C03", "refactor-pi-name-class-respelled", "parser.py",
  r'''    r'^<\?(?P<name>[^\s?]+)(?P<text>.*?)\?>', re.DOTALL)''',
  r'''    r'^<\?(?P<name>[^?\s]+)(?P<text>.*?)\?>', re.DOTALL)''',
  expect="silent")
m("C09", "macro-lookup-replaces-hyphen-only", "zpt/template.py",
  '''        name = mangle(name)
        self.template.cook_check()''',
  '''        name = name.replace('-', '_')
        self.template.cook_check()''')
m("C09", "refactor-macro-lookup-key-local", "zpt/template.py",
  '''        name = mangle(name)
        self.template.cook_check()

        try:
            function = getattr(self.template, "_render_%s" % name)''',
  '''        key = mangle(name)
        self.template.cook_check()

        try:
            function = getattr(self.template, "_render_%s" % key)''', expect="silent")
m("C15", "constants-named-by-address", "zpt/template.py",
  '''    if value is None or isinstance(value, (str, bytes, int, float)):
        # a plain constant is its own name, in every process
        return repr(value)
''', '')


# ---- fix 2348a9c: the fallback allocator is found past the classes made here
m("C12", "allocator-of-the-wrapper", "utils.py",
  """            allocator = next(
                k.__new__ for k in cls.__mro__
                if '_original__str__' not in k.__dict__
            )
            inst = allocator(new, *exc.args)""",
  """            inst = cls.__new__(new, *exc.args)""")
m("C12", "refactor-allocator-loop", "utils.py",
  """            allocator = next(
                k.__new__ for k in cls.__mro__
                if '_original__str__' not in k.__dict__
            )
            inst = allocator(new, *exc.args)""",
  """            alloc = next(
                klass.__new__ for klass in cls.__mro__
                if '_original__str__' not in klass.__dict__)
            inst = alloc(new, *exc.args)""", expect="silent")
m("C12", "fallback-try-merged", "utils.py",
  """        except TypeError:
            new = cls

        inst: BaseException
        try:
            inst = BaseException.__new__(new)
        except TypeError:""",
  """            inst: BaseException = BaseException.__new__(new)
        except TypeError:
            new = cls""")


# ---- fix 8981ec6: the on-error handler's 'error' variable is bracketed
_EV = """        error_backup = list(self._enter_assignment(names))
        fallback_body = self.visit(node.fallback) + \\
            list(self._leave_assignment(names))"""
for _p in ("C13", "C05"):
    m(_p, "error-variable-generators-dropped", C, _EV,
      """        error_backup = []
        self._enter_assignment(names)
        fallback_body = self.visit(node.fallback)
        self._leave_assignment(names)""")
    m(_p, "error-variable-not-restored", C, _EV,
      """        error_backup = list(self._enter_assignment(names))
        fallback_body = self.visit(node.fallback)""")
    m(_p, "error-variable-saved-after-assignment", C,
      """                      error_backup +
                      error_assignment +""",
      """                      error_assignment +
                      error_backup +""")
    m(_p, "refactor-error-variable-extend", C, _EV,
      """        error_backup = [stmt for stmt in self._enter_assignment(names)]
        fallback_body = self.visit(node.fallback)
        fallback_body.extend(self._leave_assignment(names))""",
      expect="silent")


# ---- fix 7e45501: the stream of a named block is joined in a finally
m("C10", "name-join-not-in-finally", C,
  """        body.append(ast.Try(
            body=[TranslationContext(code, append, stream)],
            handlers=[],
            orelse=[],
            finalbody=template("stream = ''.join(stream)", stream=stream),
        ))
""",
  """        body.append(TranslationContext(code, append, stream))
        body += template("stream = ''.join(stream)", stream=stream)
""")
m("C10", "name-join-in-orelse", C,
  """            handlers=[],
            orelse=[],
            finalbody=template("stream = ''.join(stream)", stream=stream),
        ))
""",
  """            handlers=[ast.ExceptHandler(
                type=None, name=None, body=[ast.Raise(None, None)])],
            orelse=template("stream = ''.join(stream)", stream=stream),
            finalbody=[],
        ))
""")
m("C10", "refactor-name-join-local", C,
  """        body.append(ast.Try(
            body=[TranslationContext(code, append, stream)],
            handlers=[],
            orelse=[],
            finalbody=template("stream = ''.join(stream)", stream=stream),
        ))
""",
  """        join = template("stream = ''.join(stream)", stream=stream)
        block = TranslationContext(code, append, stream)
        body.append(ast.Try(body=[block], handlers=[], orelse=[],
                            finalbody=join))
""", expect="silent")


# ---- fix 10c9a51: carriage returns of a multi-line expression
for _p in ("C20", "C11", "C04", "C06"):
    m(_p, "python-cr-kept", "tales.py",
      "string = string.replace('\\n', ' ').replace('\\r', ' ')",
      "string = string.replace('\\n', ' ')")
    m(_p, "refactor-python-line-ends-two-steps", "tales.py",
      "string = string.replace('\\n', ' ').replace('\\r', ' ')",
      "string = string.replace('\\r', ' ')\n        string = string.replace('\\n', ' ')",
      expect="silent")
m("C20", "python-all-space-collapsed", "tales.py",
  "string = string.replace('\\n', ' ').replace('\\r', ' ')",
  "string = ' '.join(string.split())")

# ---- fix e1d2cab: the debug comment quotes the file name
m("C15", "debug-comment-raw", "template.py",
  """                    source = "# template: {!r}\\n#\\n{}".format(
                        str(self.filename), source)""",
  """                    source = "# template: {}\\n#\\n{}".format(
                        str(self.filename), source)""")
m("C15", "refactor-debug-comment-percent", "template.py",
  """                    source = "# template: {!r}\\n#\\n{}".format(
                        str(self.filename), source)""",
  """                    source = "# template: %r\\n#\\n%s" % (
                        str(self.filename), source)""", expect="silent")

# ---- fix ca97ef9: identity of a template class made inside a function
m("C15", "local-class-without-identity", "template.py",
  """            qualified = "{}@{:x}".format(qualified, id(cls))""",
  """            qualified = "{}@local".format(qualified)""")
m("C15", "class-name-dropped-from-key", "template.py",
  """        class_name = qualified.encode('utf-8')""",
  """        class_name = b'template'""")


# ---- fix (file name as a literal in the key)
m("C15", "filename-raw-in-key", "template.py",
  """        sha.update(
            repr(filename).encode('utf-8', 'surrogatepass') + b'\\n')""",
  """        sha.update(filename.encode('utf-8', 'surrogatepass') + b'\\n')""")
m("C15", "refactor-filename-length-prefixed", "template.py",
  """        sha.update(
            repr(filename).encode('utf-8', 'surrogatepass') + b'\\n')""",
  """        name_bytes = filename.encode('utf-8', 'surrogatepass')
        sha.update(b'%d:' % len(name_bytes) + name_bytes + b'\\n')""",
  expect="silent")


# ---- fix cc8d6e2: the target of a processing instruction up to the blank
m("C03", "pi-name-word-characters-only", "parser.py",
  r"""    r'^<\?(?P<name>[^\s?]+)(?P<text>.*?)\?>', re.DOTALL)""",
  r"""    r'^<\?(?P<name>[\w.:-]+)(?P<text>.*?)\?>', re.DOTALL)""")


# ---- fix 1f8265f: 'lambda:' is no expression type
for _p in ("C04",):
    m(_p, "prefix-takes-lambda", "tales.py",
      r"match_prefix = re.compile(r'^\s*(?!lambda:)([a-z][a-z0-9\-_]*):').match",
      r"match_prefix = re.compile(r'^\s*([a-z][a-z0-9\-_]*):').match")
    m(_p, "refactor-prefix-lookahead-inside-group", "tales.py",
      r"match_prefix = re.compile(r'^\s*(?!lambda:)([a-z][a-z0-9\-_]*):').match",
      r"match_prefix = re.compile(r'^\s*(?!lambda:)([a-z][-a-z0-9_]*):').match",
      expect="silent")


# ---- fix 3abdb1f: an empty static attribute value is not translated
m("C10", "empty-attribute-translated", ZP,
  """                if msgid is not missing and not (
                    not msgid and isinstance(value, ast.Constant)
                    and value.value == ''
                ):
                    value = nodes.Translate(msgid, value)""",
  """                if msgid is not missing:
                    value = nodes.Translate(msgid, value)""")
m("C10", "attribute-never-translated-without-id", ZP,
  """                if msgid is not missing and not (
                    not msgid and isinstance(value, ast.Constant)
                    and value.value == ''
                ):
                    value = nodes.Translate(msgid, value)""",
  """                if msgid is not missing and msgid:
                    value = nodes.Translate(msgid, value)""")
m("C10", "refactor-empty-attribute-named-test", ZP,
  """                if msgid is not missing and not (
                    not msgid and isinstance(value, ast.Constant)
                    and value.value == ''
                ):
                    value = nodes.Translate(msgid, value)""",
  """                empty = not msgid and isinstance(value, ast.Constant) \\
                    and value.value == ''
                if msgid is not missing and not empty:
                    value = nodes.Translate(msgid, value)""", expect="silent")
