"""Shared queries and generic rules (G-*)."""
from __future__ import annotations

import ast

from . import absint as A
from .core import AnalysisError, clone_ast, src

_CACHE = {}


def interp(repo):
    key = ("interp", id(repo))
    if key not in _CACHE:
        _CACHE[key] = A.Interp(repo)
    return _CACHE[key]


def emission(repo, qualname, args=None):
    """Abstractly interpret a function once; returns absint.Result."""
    key = (id(repo), qualname, None if args is None else id(args))
    if key not in _CACHE:
        f = repo.func(qualname)
        _CACHE[key] = interp(repo).run(f, args)
    return _CACHE[key]


# ---------------------------------------------------------------------------
# AST pattern matching:  names of the form _X (underscore + capital) are
# wildcards that bind sub-trees; the same wildcard must bind equal sub-trees.


def _is_wild(name):
    return len(name) >= 2 and name[0] == "_" and name[1].isupper()


def _dump(node):
    return ast.dump(node).replace("ctx=Store()", "ctx=Load()").replace(
        "ctx=Del()", "ctx=Load()")


def match(pattern, node, binds=None):
    """Structural match of ``node`` against ``pattern`` (both ast nodes)."""
    binds = {} if binds is None else binds
    if isinstance(pattern, ast.Name) and _is_wild(pattern.id):
        if pattern.id in binds:
            return binds if _dump(binds[pattern.id]) == _dump(node) \
                else None
        binds[pattern.id] = node
        return binds
    if isinstance(pattern, ast.Expr) and isinstance(pattern.value, ast.Name) \
            and _is_wild(pattern.value.id) and isinstance(node, ast.stmt):
        binds[pattern.value.id] = node
        return binds
    if type(pattern) is not type(node):
        return None
    if isinstance(pattern, ast.Compare) and len(pattern.ops) == 1 and \
            isinstance(pattern.ops[0], (ast.Eq, ast.NotEq)) and \
            len(node.ops) == 1 and type(node.ops[0]) is type(pattern.ops[0]):
        # symmetric operators: either order of the operands
        for a, b in ((node.left, node.comparators[0]),
                     (node.comparators[0], node.left)):
            trial = dict(binds)
            if match(pattern.left, a, trial) is not None and \
                    match(pattern.comparators[0], b, trial) is not None:
                binds.update(trial)
                return binds
        return None
    for f in pattern._fields:
        if f == "ctx":
            continue
        pv, nv = getattr(pattern, f, None), getattr(node, f, None)
        if isinstance(pv, list):
            if not isinstance(nv, list) or len(pv) != len(nv):
                return None
            for a, b in zip(pv, nv):
                if isinstance(a, ast.AST):
                    if match(a, b, binds) is None:
                        return None
                elif a != b:
                    return None
        elif isinstance(pv, ast.AST):
            if not isinstance(nv, ast.AST) or match(pv, nv, binds) is None:
                return None
        else:
            if f in ("lineno", "col_offset", "end_lineno", "end_col_offset",
                     "type_comment", "kind"):
                continue
            if pv != nv:
                return None
    return binds


def pat(source, mode="stmt"):
    tree = ast.parse(source, mode="eval" if mode == "expr" else "exec")
    if mode == "expr":
        return tree.body
    if mode == "stmt":
        assert len(tree.body) == 1
        return tree.body[0]
    return tree.body


def find_all(pattern, tree):
    """All (node, bindings) in ``tree`` matching ``pattern``."""
    out = []
    for n in ast.walk(tree):
        b = match(pattern, n, {})
        if b is not None:
            out.append((n, b))
    return out


def frag_stmts(frag):
    if frag.tree is None:
        return []
    if isinstance(frag.tree, ast.Expression):
        return [frag.tree.body]
    return frag.tree.body


def frag_find(frag, pattern_src, mode="stmt"):
    """Search a fragment's code for a structural pattern; slot names in the
    fragment are ordinary names here (use ``slot_of`` to map back)."""
    if frag.tree is None:
        return []
    return find_all(pat(pattern_src, mode), frag.tree)


def slot_value(frag, node):
    """Abstract value bound to ``node`` if it is a slot name of ``frag``."""
    if isinstance(node, ast.Name) and node.id in frag.slots:
        return frag.slots[node.id]
    return None


def name_key(frag, node):
    """Comparable identity of a generated-code name inside a fragment."""
    if isinstance(node, ast.Name):
        v = frag.slots.get(node.id)
        if v is not None:
            return A.ident_key(v)
        return ("lit", node.id)
    return ("expr", src(node))


# ---------------------------------------------------------------------------
# linearisation helpers


class Lin:
    """Flattened emission with positions; Py nodes are descended into."""

    def __init__(self, value):
        self.rows = []   # (item, conds, path)
        self.root = value
        self._walk(value, (), ())

    def _walk(self, v, conds, path):
        for item, c in A.flatten(v, conds):
            self.rows.append((item, c, path))
            if isinstance(item, A.Py):
                for fname, fv in item.f.items():
                    if isinstance(fv, A.V):
                        self._walk(fv, c, path + ((item, fname),))
            elif isinstance(item, A.Internal) and \
                    item.kind == "TranslationContext":
                if item.args:
                    self._walk(item.args[0], c, path + ((item, "body"),))

    def index(self, pred, start=0):
        for i in range(start, len(self.rows)):
            if pred(self.rows[i][0]):
                return i
        return -1

    def all(self, pred):
        return [i for i, r in enumerate(self.rows) if pred(r[0])]

    def item(self, i):
        return self.rows[i][0]

    def conds(self, i):
        return self.rows[i][1]

    def path(self, i):
        return self.rows[i][2]

    def inside(self, i, kind, field=None):
        for node, fname in self.rows[i][2]:
            k = node.kind
            if k == kind and (field is None or field == fname):
                return node
        return None


def is_child(field=None):
    def pred(it):
        if not isinstance(it, A.Child):
            return False
        return field is None or A.show(it.arg) == field
    return pred


def is_frag(pattern_src=None, mode="stmt"):
    def pred(it):
        if not isinstance(it, A.Frag):
            return False
        if pattern_src is None:
            return True
        return bool(frag_find(it, pattern_src, mode))
    return pred


def is_py(kind):
    return lambda it: isinstance(it, A.Py) and it.kind == kind


def is_eval(expr=None):
    def pred(it):
        if not isinstance(it, A.Eval):
            return False
        return expr is None or A.show(it.expr) == expr
    return pred


def conds_text(conds):
    return " & ".join("%s %s" % (k, t) for k, t in conds) or "always"


def compatible(c1, c2):
    """Two condition tuples are jointly satisfiable as far as we can tell:
    no test taken in opposite directions."""
    d = {}
    for k, t in c1 + c2:
        if k in ("if", "else"):
            if d.setdefault(t, k) != k:
                return False
    return True


def has_opaque(value):
    for w in A.walk(value):
        if isinstance(w, A.Opaque):
            return w
    return None


def require_no_opaque(value, what):
    o = has_opaque(value)
    if o is not None:
        raise AnalysisError("%s: construct not understood: %s (line %s)" % (
            what, o.text, o.lineno))


# ---------------------------------------------------------------------------
# G-LIVE: generated locals that live across a child emission must be per-node


SHARED_OK = {
    "__token": "shared on purpose: the last evaluated expression position",
    "__stream": "render-function parameter", "__append": "bound to the stream",
    "econtext": "render-function parameter",
    "rcontext": "render-function parameter",
    "__i18n_domain": "lexically scoped translation parameter (restored by "
                     "per-node backups)",
    "__i18n_context": "same", "target_language": "same",
    "__marker": "module constant", "__default": "module constant",
    "__tokens": "module constant", "__filename": "module constant",
    "getname": "context accessor", "get": "context accessor",
    "translate": "macro prologue", "decode": "macro prologue",
    "on_error_handler": "macro prologue", "__exc": "handler-local: bound by "
    "'except ... as' and read before any child emission",
    "__re_amp": "macro prologue", "__re_needs_escape": "macro prologue",
    "__re_whitespace": "module constant", "__chain": "module import",
    "__convert": "macro prologue", "__quote": "macro prologue",
    "re": "module import", "functools": "module import",
    "intern": "module import", "len": "builtin", "str": "builtin",
}


def g_live(rep, rule, func, result, exempt=()):
    """For every generated name written before a Child/Eval-of-child emission
    and read after it inside one emitter: the name must embed a per-node
    identity.  (The render function has one flat local namespace; a nested
    node of the same kind emits the same names.)"""
    lin = Lin(result.emission)
    childs = lin.all(lambda it: isinstance(it, A.Child))
    n = 0
    for ci in childs:
        # names stored before ci / loaded after ci
        stored = {}
        for i in range(0, ci):
            for ctx, key, vrepr, v in _names(lin.item(i)):
                if ctx == "store":
                    stored.setdefault(key, (i, v))
        for i in range(ci + 1, len(lin.rows)):
            if not compatible(lin.conds(i), lin.conds(ci)):
                continue
            for ctx, key, vrepr, v in _names(lin.item(i)):
                if ctx not in ("load", "del") or key not in stored:
                    continue
                si, sv = stored[key]
                if not compatible(lin.conds(si), lin.conds(ci)) or \
                        not compatible(lin.conds(si), lin.conds(i)):
                    continue
                # re-stored between the child and this read?  then it is a
                # fresh value, not one that has to survive the child
                fresh = False
                for j in range(ci + 1, i):
                    for ctx2, key2, _, _ in _names(lin.item(j)):
                        if ctx2 == "store" and key2 == key and \
                                lin.conds(j) == lin.conds(i)[:len(
                                    lin.conds(j))]:
                            fresh = True
                if fresh:
                    continue
                name = key[1] if key[0] == "lit" else vrepr
                if key[0] == "lit" and (key[1] in SHARED_OK or
                                        key[1] in exempt):
                    continue
                n += 1
                ok, why = A.per_node(v) if not isinstance(v, str) else (
                    False, "literal name")
                site = func.qualname
                ob = ("generated local %s is written before and read after "
                      "the emission of %s: it must carry a per-node suffix"
                      % (name, A.show(lin.item(ci))))
                if ok:
                    rep.ok(rule, site, ob)
                else:
                    rep.bad(rule, site, ob,
                            construct=_construct(v, name), detail=why,
                            where="%s:%s" % (func.module.relpath,
                                             getattr(lin.item(si), "lineno",
                                                     func.node.lineno)))
    return n


def _construct(v, name):
    if isinstance(v, A.NameRef):
        v = v.ident
    if isinstance(v, A.Ident):
        return "__" + A.show(v.prefix).strip("'")
    return str(name)


def _names(item):
    """(ctx, key, printable, value) for generated names an emitted item
    stores / loads."""
    out = []
    if isinstance(item, A.Frag):
        for ctx, v, node in A.frag_names(item):
            if isinstance(v, str):
                out.append((ctx, ("lit", v), v, v))
            elif isinstance(v, (A.Ident, A.NameRef, A.Const)):
                k = A.ident_key(v)
                if isinstance(v, A.Const) and not isinstance(v.value, str):
                    continue
                out.append((ctx, k, A.show(v), v))
    elif isinstance(item, A.Eval):
        t = item.target
        k = A.ident_key(t)
        out.append(("store", k, A.show(t), t.ident if isinstance(
            t, A.NameRef) else t))
    elif isinstance(item, A.NameRef):
        out.append((("store" if item.ctx == "store" else "load"),
                    A.ident_key(item), A.show(item), item.ident))
    elif isinstance(item, A.Py):
        for fname, fv in item.f.items():
            if isinstance(fv, A.NameRef):
                out.append((("store" if fv.ctx == "store" else "load"),
                            A.ident_key(fv), A.show(fv), fv.ident))
    return out


# ---------------------------------------------------------------------------
# G-PAIR on compile-time stacks (trace)


def stack_events(trace, target):
    """Flattened (kind, conds, lineno) of push/pop effects on ``target``."""
    out = []
    for item, conds in A.flatten(trace):
        if isinstance(item, A.Effect) and item.target == target and \
                item.kind in ("push", "pop"):
            out.append((item.kind, conds, item.lineno))
        elif isinstance(item, A.Child):
            out.append(("child", conds, item.lineno))
        elif isinstance(item, A.Guard) and (target + ".pop()") in item.text:
            out.append(("pop", conds, item.lineno))
    return out


def g_pair_stack(rep, rule, func, result, target, must_bracket_child=True):
    """Every push on ``self.<stack>`` has its pop under the same compile-time
    condition, pushes precede and pops follow the child visits between."""
    ev = stack_events(result.trace, target)
    pushes = [e for e in ev if e[0] == "push"]
    pops = [e for e in ev if e[0] == "pop"]
    site = func.qualname
    ob = "push on %s is popped under the same condition on every path" % target
    if not pushes and not pops:
        return 0
    ok = len(pushes) == len(pops)
    detail = ""
    if ok:
        for pu, po in zip(pushes, reversed(pops)):
            cpu = _strip_loops(pu[1])
            cpo = _strip_loops(po[1])
            if _norm_conds(cpu) != _norm_conds(cpo):
                ok = False
                detail = "push under [%s] (line %d) but pop under [%s] " \
                         "(line %d)" % (conds_text(pu[1]), pu[2],
                                        conds_text(po[1]), po[2])
    else:
        detail = "%d push(es) vs %d pop(s)" % (len(pushes), len(pops))
    if ok and must_bracket_child:
        idx = [i for i, e in enumerate(ev) if e[0] == "child"]
        ip = [i for i, e in enumerate(ev) if e[0] == "push"]
        io = [i for i, e in enumerate(ev) if e[0] == "pop"]
        if idx and not (min(ip) < max(idx) < max(io)):
            ok = False
            detail = "push/pop do not bracket the child visit"
    rep.check(ok, rule, site, ob, construct=target, detail=detail,
              where="%s:%d" % (func.module.relpath, func.node.lineno))
    return 1


def _strip_loops(conds):
    return tuple(c for c in conds if c[0] != "loop")


_NT = {}


def norm_test(text):
    """Canonical text of a boolean test: operands of and/or are sorted, so
    that ``a or b`` and ``b or a`` read the same."""
    if text in _NT:
        return _NT[text]
    out = text
    try:
        tree = ast.parse(text, mode="eval").body

        def rec(n):
            if isinstance(n, ast.BoolOp):
                vals = sorted((rec(v) for v in n.values), key=ast.unparse)
                return ast.BoolOp(op=n.op, values=vals)
            if isinstance(n, ast.UnaryOp) and isinstance(n.op, ast.Not):
                return ast.UnaryOp(op=n.op, operand=rec(n.operand))
            return n
        out = ast.unparse(rec(tree))
    except SyntaxError:
        pass
    _NT[text] = out
    return out


def _norm_conds(conds):
    # "if use_macro or extend_macro" vs "if use_macro" are different tests
    return tuple(sorted({(k, norm_test(t)) for k, t in conds}))


# ---------------------------------------------------------------------------
# condition helpers


def _strip_not(text):
    t = text.strip()
    neg = False
    while True:
        if t.startswith("not "):
            neg = not neg
            t = t[4:].strip()
            continue
        if t.startswith("(") and t.endswith(")"):
            # balanced outer parentheses?
            depth = 0
            ok = True
            for i, ch in enumerate(t):
                depth += ch == "("
                depth -= ch == ")"
                if depth == 0 and i < len(t) - 1:
                    ok = False
                    break
            if ok:
                t = t[1:-1].strip()
                continue
        return neg, t


def polarity(conds, expr_text):
    """True / False if the conditions imply ``expr_text`` truthy / falsy,
    None if they say nothing about it."""
    for kind, test in conds:
        if kind not in ("if", "else"):
            continue
        neg, base = _strip_not(test)
        if base == expr_text or norm_test(base) == norm_test(expr_text):
            val = (kind == "if")
            return (not val) if neg else val
    return None


def cond_signature(conds):
    """Order-free signature of the non-loop conditions, with negations
    normalised (``else X`` == ``if not X``)."""
    out = set()
    for kind, test in conds:
        if kind == "loop":
            continue
        neg, base = _strip_not(test)
        val = (kind == "if")
        if neg:
            val = not val
        out.add((norm_test(base), val))
    return frozenset(out)


def where(func, lineno=None):
    return "%s:%d" % (func.module.relpath, lineno or func.node.lineno)


# ---------------------------------------------------------------------------
# save / restore brackets in emitted code

ENTER = "_B = get(_K, _M)"
LEAVE = "if _B is _M: del econtext[_K]\nelse: econtext[_K] = _B"


def brackets(lin):
    """(enters, leaves): lists of dicts(index, frag, backup, key, marker,
    conds, loops)"""
    enters, leaves = [], []
    for i, (it, conds, path) in enumerate(lin.rows):
        if not isinstance(it, A.Frag):
            continue
        for node, b in frag_find(it, ENTER):
            enters.append(dict(i=i, frag=it, backup=name_key(it, b["_B"]),
                               key=A.show(slot_value(it, b["_K"]) or
                                          A.Sym(src(b["_K"]))),
                               marker=name_key(it, b["_M"]), conds=conds,
                               bval=slot_value(it, b["_B"])))
        for node, b in frag_find(it, LEAVE):
            leaves.append(dict(i=i, frag=it, backup=name_key(it, b["_B"]),
                               key=A.show(slot_value(it, b["_K"]) or
                                          A.Sym(src(b["_K"]))),
                               marker=name_key(it, b["_M"]), conds=conds,
                               bval=slot_value(it, b["_B"])))
    return enters, leaves


def enclosing_loops(root, target):
    """Loop nodes (outermost first) around ``target`` in the tree ``root``."""
    found = []

    def walk(v, loops, seen):
        if found or id(v) in seen:
            return
        if v is target:
            found.append(loops)
            return
        seen.add(id(v))
        if isinstance(v, A.Loop):
            loops = loops + (v,)
        for _, k in v.kids():
            walk(k, loops, seen)
    walk(root, (), set())
    return found[0] if found else ()


# ---------------------------------------------------------------------------
# wrapper chains in node-construction values (E4)


def contains(a, b):
    return any(w is b for w in A.walk(a))


def kinds_between(a, b):
    """NodeV kinds on a path from ``a`` down to ``b`` (a wraps b)."""
    best = []

    def rec(v, acc, seen):
        if best or id(v) in seen:
            return
        seen.add(id(v))
        if v is b:
            best.append(list(acc))
            return
        if isinstance(v, A.NodeV):
            acc = acc + [v.kind]
        for _, k in v.kids():
            rec(k, acc, seen)
    rec(a, [], set())
    return best[0] if best else []


def peel(v):
    """One wrapper level: -> (step, inner) or None."""
    if isinstance(v, A.Alt):
        a, b = v.a, v.b
        if a is b:
            return peel(a)
        if isinstance(a, A.NodeV) and contains(a, b):
            return dict(kinds=kinds_between(a, b), guard=v.test, node=a,
                        polarity=True), b
        if isinstance(b, A.NodeV) and contains(b, a):
            return dict(kinds=kinds_between(b, a), guard=v.test, node=b,
                        polarity=False), a
        for x, y, pol in ((a, b, True), (b, a, False)):
            if isinstance(x, A.Alt):
                r = peel(x)
                if r is not None and r[1] is y:
                    s = dict(r[0])
                    s["guard"] = "%s(%s) and %s(%s)" % (
                        "" if pol else "not ", v.test,
                        "" if s["polarity"] else "not ", s["guard"])
                    s["polarity"] = True
                    return s, y
        if isinstance(a, A.NodeV) and a.kind == "UseInternalMacro":
            return dict(kinds=["UseInternalMacro"], guard=v.test, node=a,
                        polarity=True, boundary=True), b
        return None
    if isinstance(v, A.NodeV):
        kids = [x for x in list(v.args) + list(v.kwargs.values())
                if isinstance(x, (A.NodeV, A.Alt))]
        if len(kids) != 1:
            return None
        return dict(kinds=[v.kind], guard=None, node=v, polarity=True), kids[0]
    return None


def wrapper_chain(v, limit=60):
    """Peel optional / unconditional wrappers off a node-construction value.
    -> (steps, rest) ; step = dict(kinds=[...], guard=str|None, node=NodeV,
    polarity=bool)"""
    steps = []
    for _ in range(limit):
        r = peel(v)
        if r is None:
            break
        steps.append(r[0])
        v = r[1]
    return steps, v


# ---------------------------------------------------------------------------
# statement text that is insensitive to the names of local variables


def _locals_of(fnode):
    """names bound inside a function that are not parameters / globals"""
    if not isinstance(fnode, (ast.FunctionDef, ast.Lambda)):
        stores = {n.id for n in ast.walk(fnode) if isinstance(n, ast.Name)
                  and isinstance(n.ctx, ast.Store)}
        return stores
    params = {a.arg for a in fnode.args.posonlyargs + fnode.args.args +
              fnode.args.kwonlyargs}
    if fnode.args.vararg:
        params.add(fnode.args.vararg.arg)
    if fnode.args.kwarg:
        params.add(fnode.args.kwarg.arg)
    out = set()
    for n in ast.walk(fnode):
        if isinstance(n, ast.Name) and isinstance(n.ctx, ast.Store):
            out.add(n.id)
        elif isinstance(n, ast.ExceptHandler) and n.name:
            out.add(n.name)
        elif isinstance(n, ast.arg) and n.arg not in params:
            out.add(n.arg)
    for n in ast.walk(fnode):
        if isinstance(n, (ast.Global, ast.Nonlocal)):
            out -= set(n.names)
    return out - params


def unify(expected, actual, local_names, binds=None):
    """Structural equality of two ast nodes modulo a consistent (injective)
    renaming of the *local* names of the analysed function."""
    binds = {} if binds is None else binds
    if isinstance(expected, ast.Name) and isinstance(actual, ast.Name):
        if expected.id == actual.id and expected.id not in binds and \
                actual.id not in binds.values():
            return binds
        # an expected name may stand for another local only if the
        # function has no local of that name any more (it was renamed)
        if actual.id in local_names and expected.id not in local_names \
                and expected.id not in getattr(local_names, "fixed", ()):
            if expected.id in binds:
                return binds if binds[expected.id] == actual.id else None
            if actual.id in binds.values():
                return None
            binds[expected.id] = actual.id
            return binds
        return binds if expected.id == actual.id else None
    if type(expected) is not type(actual):
        return None
    if isinstance(expected, ast.ExceptHandler):
        if (expected.name is None) != (actual.name is None):
            return None
        if expected.name is not None and expected.name != actual.name:
            if actual.name not in local_names:
                return None
            if binds.get(expected.name, actual.name) != actual.name:
                return None
            binds[expected.name] = actual.name
    for f in expected._fields:
        if f == "ctx" or (isinstance(expected, ast.ExceptHandler) and
                          f == "name"):
            continue
        ev, av = getattr(expected, f, None), getattr(actual, f, None)
        if isinstance(ev, list):
            if not isinstance(av, list) or len(ev) != len(av):
                return None
            for a, b in zip(ev, av):
                if isinstance(a, ast.AST):
                    if unify(a, b, local_names, binds) is None:
                        return None
                elif a != b:
                    return None
        elif isinstance(ev, ast.AST):
            if not isinstance(av, ast.AST) or \
                    unify(ev, av, local_names, binds) is None:
                return None
        else:
            if f in ("lineno", "col_offset", "end_lineno", "end_col_offset",
                     "type_comment", "kind"):
                continue
            if ev != av:
                return None
    return binds


class _CanonIf(ast.NodeTransformer):
    """if/else and conditional expressions in positive normal form: the test
    carries no leading 'not' / 'is not' / '!=' / 'not in' (branches swapped
    accordingly), so a statement and its branch-inverted twin read alike"""

    @staticmethod
    def _pos(test):
        flip = False
        while True:
            if isinstance(test, ast.UnaryOp) and isinstance(test.op, ast.Not):
                test = test.operand
                flip = not flip
                continue
            if isinstance(test, ast.Compare) and len(test.ops) == 1 and \
                    type(test.ops[0]) in (ast.IsNot, ast.NotEq, ast.NotIn):
                pos = {ast.IsNot: ast.Is, ast.NotEq: ast.Eq,
                       ast.NotIn: ast.In}[type(test.ops[0])]
                test = ast.Compare(test.left, [pos()], test.comparators)
                flip = not flip
                continue
            return test, flip

    def visit_If(self, node):
        self.generic_visit(node)
        if node.orelse and not (len(node.orelse) == 1 and
                                isinstance(node.orelse[0], ast.If)):
            test, flip = self._pos(node.test)
            if flip:
                node.test = test
                node.body, node.orelse = node.orelse, node.body
        return node

    def visit_IfExp(self, node):
        self.generic_visit(node)
        test, flip = self._pos(node.test)
        if flip:
            node.test = test
            node.body, node.orelse = node.orelse, node.body
        return node


def canon_stmt(st):
    """clone of a statement / expression in if-normal form (no parent
    links)"""
    try:
        if isinstance(st, ast.expr):
            tree = ast.parse(ast.unparse(st), mode="eval").body
            return ast.fix_missing_locations(_CanonIf().visit(tree))
        tree = ast.parse(ast.unparse(st))
        tree = ast.fix_missing_locations(_CanonIf().visit(tree))
        return tree.body[0] if tree.body else st
    except (SyntaxError, ValueError, RecursionError):
        return st


class _LocalNames(set):
    fixed = frozenset()


class StmtText(str):
    """The statements of a function as one line of text; ``x in text`` is
    true if ``x`` occurs literally *or* if x parses as an expression /
    statement that equals some expression / statement of the function up to
    a renaming of the function's local variables."""

    def __new__(cls, node, stmts=None):
        if stmts is None:
            stmts = [s for s in ast.walk(node) if isinstance(s, ast.stmt)]
        inst = str.__new__(cls, " ".join(src(s) for s in stmts))
        inst.node = node
        inst.stmts = stmts
        inst._canon = None
        inst.locals = _LocalNames(_locals_of(node))
        # names the function uses that are *not* its locals (parameters,
        # globals, builtins, self): an expected text naming one of them
        # means that very name
        used = {n.id for n in ast.walk(node) if isinstance(n, ast.Name)}
        params = set()
        if isinstance(node, (ast.FunctionDef, ast.Lambda)):
            a = node.args
            params = {x.arg for x in a.posonlyargs + a.args + a.kwonlyargs}
            if a.vararg:
                params.add(a.vararg.arg)
            if a.kwarg:
                params.add(a.kwarg.arg)
        inst.locals.fixed = (used - set(inst.locals)) | params
        return inst

    def _parse(self, text):
        for mode in ("eval", "exec"):
            for cand in (text,
                         text.replace(" else: ", "\nelse: "),
                         text.replace(" else: ", "\nelse:\n    ").replace(
                             ": ", ":\n    ", 1)):
                try:
                    tree = ast.parse(cand, mode=mode)
                except SyntaxError:
                    continue
                from .alpha import order_compares
                return mode, order_compares(tree)
        return None, None

    def _header(self, text):
        """'for x in y:' / 'if c:' / 'while c:' / 'with a as b:' /
        'except E as e:' -- a compound statement's header alone"""
        t = text.strip()
        if not t.endswith(":"):
            return False
        try:
            if t.startswith("except"):
                want = ast.parse("try: pass\n" + t + " pass").body[0] \
                    .handlers[0]
            elif t.startswith("elif "):
                want = ast.parse(t[2:] + " pass").body[0]
            else:
                want = ast.parse(t + " pass").body[0]
        except SyntaxError:
            return False
        fields = {ast.For: ("target", "iter"), ast.If: ("test",),
                  ast.While: ("test",), ast.With: ("items",),
                  ast.ExceptHandler: ("type",)}.get(type(want))
        if fields is None:
            return False
        for top in self.stmts:
            for s in ast.walk(top):
                if type(s) is not type(want):
                    continue
                binds = {}
                ok = True
                if isinstance(want, ast.If):
                    # the branch on which the quoted condition holds exists
                    # either way round: 'if c: A else: B' / 'if not c: B
                    # else: A'
                    wt, wf = _CanonIf._pos(want.test)
                    st_, sf = _CanonIf._pos(s.test)
                    if unify(wt, st_, self.locals, binds) is not None and (
                            wf == sf or s.orelse):
                        return True
                    continue
                for f in fields:
                    a, b = getattr(want, f), getattr(s, f)
                    if isinstance(a, list):
                        if len(a) != len(b) or any(
                                unify(x, y, self.locals, binds) is None
                                for x, y in zip(a, b)):
                            ok = False
                    elif a is None or b is None:
                        ok = ok and a is b
                    elif unify(a, b, self.locals, binds) is None:
                        ok = False
                if ok:
                    return True
        return False

    def _inverted(self, mode, tree):
        """second chance: compare in if-normal form (a plain if/else may
        have been inverted)"""
        if self._canon is None:
            self._canon = [canon_stmt(s) for s in self.stmts
                           if any(isinstance(x, (ast.If, ast.IfExp))
                                  for x in ast.walk(s))]
        if not self._canon:
            return False
        if mode == "eval":
            want = canon_stmt(tree.body)
            for s in self._canon:
                for n in ast.walk(s):
                    if isinstance(n, ast.expr) and type(n) is type(want) and \
                            unify(want, n, self.locals, {}) is not None:
                        return True
            return False
        wants = [canon_stmt(w) for w in tree.body]
        if len(wants) != 1:
            return False
        for top in self._canon:
            for s in ast.walk(top):
                if isinstance(s, ast.stmt) and unify(
                        wants[0], s, self.locals, {}) is not None:
                    return True
        return False

    def __contains__(self, text):
        if str.__contains__(self, text):
            return True
        if self._header(text):
            return True
        mode, tree = self._parse(text)
        if tree is None:
            return False
        if self._plain_contains(mode, tree):
            return True
        if any(isinstance(x, (ast.If, ast.IfExp)) for x in ast.walk(tree)):
            return self._inverted(mode, tree)
        return False

    def _plain_contains(self, mode, tree):
        if mode == "eval":
            want = tree.body
            for s in self.stmts:
                for n in ast.walk(s):
                    if isinstance(n, ast.expr) and type(n) is type(want) and \
                            unify(want, n, self.locals, {}) is not None:
                        return True
            return False
        wants = tree.body
        if len(wants) == 1:
            for top in self.stmts:
                for s in ast.walk(top):
                    if isinstance(s, ast.stmt) and unify(
                            wants[0], s, self.locals, {}) is not None:
                        return True
            return False
        # a run of consecutive statements in one block
        blocks = []
        for n in [x for top in self.stmts for x in ast.walk(top)] + \
                [self.node]:
            for fld in ("body", "orelse", "finalbody"):
                b = getattr(n, fld, None)
                if isinstance(b, list) and b and isinstance(b[0], ast.stmt):
                    blocks.append(b)
        for b in blocks:
            for i in range(len(b) - len(wants) + 1):
                binds = {}
                if all(unify(w, b[i + k], self.locals, binds) is not None
                       for k, w in enumerate(wants)):
                    return True
        return False


def text(node, body_only=False):
    """StmtText of a function node (all nested statements) or of its
    top-level statements only."""
    if body_only:
        return StmtText(_owner(node), list(node.body))
    return StmtText(node)


def _owner(node):
    """the function a node belongs to (its locals may be renamed)"""
    n = node
    while n is not None and not isinstance(n, ast.FunctionDef):
        n = getattr(n, "_parent", None)
    return n or node


# ---------------------------------------------------------------------------
# who may write Token positions; exception class closure


def token_field_stores(repo):
    """Stores to <...>token.pos / .source / (token).pos outside the Token
    class: -> [(Func, lineno, text)]"""
    out = []
    for q, f in sorted(repo.funcs.items()):
        if q.startswith("chameleon.tokenize.Token."):
            continue
        for n in ast.walk(f.node):
            tgts = []
            if isinstance(n, ast.Assign):
                tgts = n.targets
            elif isinstance(n, (ast.AugAssign, ast.AnnAssign)):
                tgts = [n.target]
            for t in tgts:
                for x in ast.walk(t):
                    if isinstance(x, ast.Attribute) and \
                            isinstance(x.ctx, ast.Store) and \
                            x.attr in ("pos", "source"):
                        recv = src(x.value)
                        if recv == "token" or recv.endswith(".token") or \
                                recv.endswith("_token"):
                            out.append((f, n.lineno, src(n)[:80]))
            if isinstance(n, ast.Call) and src(n.func) == "setattr" and \
                    len(n.args) >= 2 and "token" in src(n.args[0]) and \
                    isinstance(n.args[1], ast.Constant) and \
                    n.args[1].value in ("pos", "source"):
                out.append((f, n.lineno, src(n)[:80]))
    return out


def class_closure(repo, ci):
    """names of all (transitive) base classes of a repo class, repo-defined
    and builtin, -> (set of repo class qualnames, set of builtin names)"""
    import builtins
    seen, ext = set(), set()
    todo = [ci]
    while todo:
        c = todo.pop()
        if c.qualname in seen:
            continue
        seen.add(c.qualname)
        for b in c.node.bases:
            r = repo.resolve_attr(c.module, b)
            if r and r[0] == "class":
                todo.append(r[1])
            else:
                name = src(b).split(".")[-1]
                if hasattr(builtins, name):
                    ext.add(name)
                else:
                    ext.add(src(b))
    return seen, ext


def builtin_subclass(name, others):
    """is builtin exception `name` a subclass of any builtin in `others`"""
    import builtins
    k = getattr(builtins, name, None)
    if not isinstance(k, type):
        return False
    return any(isinstance(getattr(builtins, o, None), type) and
               issubclass(k, getattr(builtins, o)) for o in others)


# ---------------------------------------------------------------------------
# G-SETITER over the whole package

def lists_of_sets(repo):
    """class -> the attributes that hold a list whose elements are sets,
    read off the source: every element ever put into ``self.<attr>`` (list
    display assigned to it, ``self.<attr>.append(e)``) is a set-typed
    expression (locals resolved, ``set(self.<attr>[-1])`` included)"""
    elems = {}
    for q, f in sorted(repo.funcs.items()):
        if f.cls is None:
            continue
        for n in ast.walk(f.node):
            if isinstance(n, ast.Assign):
                for t in n.targets:
                    if isinstance(t, ast.Attribute) and \
                            src(t.value) == "self":
                        if isinstance(n.value, (ast.List, ast.Tuple)):
                            for e in n.value.elts:
                                elems.setdefault((f.cls.qualname, t.attr),
                                                 []).append((f, e))
                        elif (f.cls.qualname, t.attr) in elems or \
                                not isinstance(n.value, ast.Constant):
                            # bound to something that is no list display
                            elems.setdefault((f.cls.qualname, t.attr),
                                             []).append((f, None))
            elif isinstance(n, ast.Call) and isinstance(
                    n.func, ast.Attribute) and n.func.attr in (
                        "append", "insert") and isinstance(
                            n.func.value, ast.Attribute) and \
                    src(n.func.value.value) == "self" and n.args:
                elems.setdefault((f.cls.qualname, n.func.value.attr),
                                 []).append((f, n.args[-1]))
    out = {}
    for (cq, attr), es in elems.items():
        good = bool([e for f, e in es if e is not None])
        grounded = False
        for f, e in es:
            if e is None:
                # a non-display binding: fine if it is an empty start
                continue

            def typed(assume):
                local = {}
                for _ in range(2):
                    for n in ast.walk(f.node):
                        if isinstance(n, ast.Assign) and _is_set_expr(
                                n.value, local, set(), assume):
                            for t in n.targets:
                                if isinstance(t, ast.Name):
                                    local[t.id] = n.value
                return _is_set_expr(e, local, set(), assume)
            if not typed({attr}):
                good = False
            # (one element at least is a set by itself, not only under the
            # assumption that the list holds sets)
            grounded = grounded or typed(frozenset())
        if good and grounded:
            out.setdefault(cq, set()).add(attr)
    return out


ORDERED_CONSUMERS = ("list", "tuple", "enumerate", "zip", "map", "iter",
                     "next", "reversed")


def _set_attrs(repo):
    out = set()
    for q, c in repo.classes.items():
        for k, v in c.attrs.items():
            if _is_set_expr(v, {}, set()):
                out.add(k)
        for m in c.methods.values():
            for n in ast.walk(m.node):
                if isinstance(n, ast.Assign):
                    for t in n.targets:
                        if isinstance(t, ast.Attribute) and \
                                src(t.value) == "self" and \
                                _is_set_expr(n.value, {}, set()):
                            out.add(t.attr)
    return out


def _is_set_expr(e, local, attrs, los=frozenset()):
    if isinstance(e, (ast.Set, ast.SetComp)):
        return True
    if isinstance(e, ast.Call) and isinstance(e.func, ast.Name) and \
            e.func.id in ("set", "frozenset"):
        return True
    if isinstance(e, ast.Name) and e.id in local:
        return True
    if isinstance(e, ast.Attribute) and e.attr in attrs and \
            src(e.value) == "self":
        return True
    if isinstance(e, ast.BinOp) and isinstance(
            e.op, (ast.BitOr, ast.BitAnd, ast.Sub, ast.BitXor)):
        return _is_set_expr(e.left, local, attrs, los) or \
            _is_set_expr(e.right, local, attrs, los)
    if isinstance(e, ast.Call) and isinstance(e.func, ast.Attribute) and \
            e.func.attr in ("union", "intersection", "difference",
                            "symmetric_difference", "copy") and \
            _is_set_expr(e.func.value, local, attrs, los):
        return True
    if isinstance(e, ast.Subscript) and isinstance(e.value, ast.Attribute) \
            and e.value.attr in los and src(e.value.value) == "self":
        return True
    return False


def set_iteration_sites(repo):
    """Every place of the package where a set-typed expression is iterated
    in an order-observing way (for loop, comprehension, list()/tuple()/
    join()/extend()/unpacking).  sorted()/set()/len()/any()/all()/min()/
    max()/sum()/membership are order-free and not reported.
    -> [(Func, lineno, kind, resolved-iter-text)]"""
    attrs = _set_attrs(repo)
    los_by_class = lists_of_sets(repo)
    out = []
    for q, f in sorted(repo.funcs.items()):
        local = {}
        los = los_by_class.get(f.cls.qualname, frozenset()) \
            if f.cls is not None else frozenset()
        for _ in range(3):
            for n in ast.walk(f.node):
                if isinstance(n, ast.Assign) and \
                        _is_set_expr(n.value, local, attrs, los):
                    for t in n.targets:
                        if isinstance(t, ast.Name):
                            local[t.id] = n.value
        for n in ast.walk(f.node):
            its = []
            if isinstance(n, ast.For):
                its.append((n.iter, "for"))
            elif isinstance(n, ast.comprehension):
                par = getattr(n, "_parent", None)
                if not isinstance(par, ast.SetComp):
                    its.append((n.iter, "comprehension"))
            elif isinstance(n, ast.Call) and isinstance(n.func, ast.Name) \
                    and n.func.id in ORDERED_CONSUMERS:
                its += [(a, n.func.id) for a in n.args]
            elif isinstance(n, ast.Call) and isinstance(n.func, ast.Name) \
                    and n.func.id in ("sorted", "min", "max") and any(
                        k.arg == "key" and not (
                            # position in a sequence: distinct per element
                            isinstance(k.value, ast.Attribute) and
                            k.value.attr == "index")
                        for k in n.keywords):
                # a key function may tie: equal keys keep the order of the
                # iteration (sorted is stable, min/max return the first)
                its += [(a, n.func.id + "(key=)") for a in n.args[:1]]
            elif isinstance(n, ast.Call) and isinstance(
                    n.func, ast.Attribute) and n.func.attr in (
                        "join", "extend"):
                its += [(a, n.func.attr) for a in n.args]
            elif isinstance(n, ast.Starred):
                its.append((n.value, "unpack"))
            for e, kind in its:
                if _is_set_expr(e, local, attrs, los):
                    r = e
                    seen = 0
                    while isinstance(r, ast.Name) and r.id in local and \
                            seen < 5:
                        r = local[r.id]
                        seen += 1
                    out.append((f, getattr(e, "lineno", f.node.lineno), kind,
                                src(r)))
    return out


def inline_locals(fnode, expr, depth=6):
    """Copy of ``expr`` with every local that has exactly one assignment in
    the function (plain ``name = value``) replaced by its value, repeatedly.
    Makes an obligation about an expression independent of how its parts
    are named, and ties it to where they come from."""
    import copy
    defs = {}
    if isinstance(fnode, (ast.FunctionDef, ast.AsyncFunctionDef, ast.Lambda)):
        a_ = fnode.args
        for x in a_.posonlyargs + a_.args + a_.kwonlyargs + \
                [y for y in (a_.vararg, a_.kwarg) if y is not None]:
            defs.setdefault(x.arg, []).append(None)
    for n in ast.walk(fnode):
        if isinstance(n, ast.Assign):
            for t in n.targets:
                for x in ast.walk(t):
                    if isinstance(x, ast.Name) and isinstance(
                            x.ctx, (ast.Store, ast.Del)):
                        defs.setdefault(x.id, []).append(
                            n.value if (x is t and len(n.targets) == 1)
                            else None)
        elif isinstance(n, (ast.AugAssign, ast.AnnAssign)) and \
                isinstance(n.target, ast.Name):
            defs.setdefault(n.target.id, []).append(None)
        elif isinstance(n, (ast.For, ast.comprehension)):
            for x in ast.walk(n.target):
                if isinstance(x, ast.Name):
                    defs.setdefault(x.id, []).append(None)
    single = {k: v[0] for k, v in defs.items()
              if len(v) == 1 and v[0] is not None}

    class T(ast.NodeTransformer):
        def visit_Name(self, node):
            if isinstance(node.ctx, ast.Load) and node.id in single:
                return clone_ast(single[node.id])
            return node
    out = clone_ast(expr)
    for _ in range(depth):
        before = ast.dump(out)
        out = T().visit(out)
        if ast.dump(out) == before:
            break
    return out


# ---------------------------------------------------------------------------
# orientation-free access to alternatives (Alt tests are kept in positive
# normal form by absint.canon_test)


def _same_test(a, b):
    return norm_test(a).replace(" ", "") == norm_test(b).replace(" ", "")


def branch(alt, test_text, value=True):
    """The branch of ``alt`` taken when ``test_text`` (written in any
    polarity: 'not x', 'x is not None', ...) evaluates to ``value``; None if
    the alternative does not decide on that test."""
    if not isinstance(alt, A.Alt):
        return None
    ct, flip = A.canon_test(test_text)
    if not _same_test(ct, alt.test):
        return None
    return alt.a if (value != flip) else alt.b


def decides_on(alt, test_text):
    return isinstance(alt, A.Alt) and \
        _same_test(A.canon_test(test_text)[0], alt.test)


def cond_holds(conds, test_text, value=True, contains=False):
    """``conds`` as produced by absint.flatten (('if'|'else', test) pairs)
    or as (test, bool) pairs: does the path assume that ``test_text``
    evaluates to ``value``?  With contains=True the test only has to occur
    inside a condition's text (after normalisation of the polarity of the
    whole condition)."""
    ct, flip = A.canon_test(test_text)
    want = (value != flip)
    for c in conds:
        k, t = c[0], c[1]
        if isinstance(t, bool):
            k, t = t, k
        truth = k if isinstance(k, bool) else (k == "if")
        if k == "loop":
            continue
        ct2, flip2 = A.canon_test(t)
        truth2 = (truth != flip2)
        if _same_test(ct, ct2):
            if truth2 == want:
                return True
            continue
        # a conjunct of a compound condition that holds
        if contains and truth2 and " or " not in ct2:
            if want and ct.replace(" ", "") in ct2.replace(" ", ""):
                return True
            if value and flip and test_text.replace(" ", "") in \
                    ct2.replace(" ", ""):
                return True
    return False


def guards_of(node, upto):
    """The conditions under which ``node`` is executed inside ``upto``:
    [(test node or ExceptHandler, taken-branch truth)] from outermost to
    innermost -- ancestor if/while tests, conditional expressions, except
    handlers; a conditional expression in the iterable that feeds an
    enclosing for loop counts as a guard as well."""
    out = []
    prev, a = node, getattr(node, "_parent", None)
    while a is not None and a is not upto:
        if isinstance(a, (ast.If, ast.While)) and prev is not a.test:
            out.append((a.test, prev in a.body))
        elif isinstance(a, ast.IfExp) and prev is not a.test:
            out.append((a.test, prev is a.body))
        elif isinstance(a, ast.ExceptHandler):
            out.append((a, True))
        elif isinstance(a, ast.For) and prev is not a.iter:
            for x in ast.walk(a.iter):
                if isinstance(x, ast.IfExp):
                    out.append((x.test, True))
        prev, a = a, getattr(a, "_parent", None)
    return list(reversed(out))


# ---------------------------------------------------------------------------
# borrowing obligations of a neighbouring property


class Borrow:
    """A stand-in for a Report handed to another property's rule function:
    obligations whose construct starts with one of ``constructs`` are
    recorded in ``rep`` under ``rule`` (with a note where they come from),
    everything else the function reports is dropped."""

    def __init__(self, rep, rule, constructs, origin):
        self._rep = rep
        self._rule = rule
        self._constructs = tuple(constructs)
        self._origin = origin
        self.n = 0
        self.prop = rep.prop
        self.tier = rep.tier
        self.explanation = ""
        self.assumptions = []

    def _mine(self, construct):
        return construct is not None and str(construct).startswith(
            self._constructs)

    def rule(self, rid, text):
        pass

    def note(self, *a, **k):
        pass

    def count(self, *a, **k):
        pass

    def require_min(self, *a, **k):
        pass

    def ok(self, rule, site, obligation, nontrivial=True):
        pass

    def bad(self, rule, site, obligation, construct, detail="", where=""):
        self.check(False, rule, site, obligation, construct, detail, where)

    def check(self, cond, rule, site, obligation, construct=None, detail="",
              where=""):
        if not self._mine(construct):
            return
        self.n += 1
        self._rep.check(cond, self._rule, site, "%s  [shared with %s %s]" % (
            obligation, self._origin, rule), construct=construct,
            detail=detail, where=where)


def borrow(repo, rep, rule, origin, func, constructs, minimum=1):
    """run ``func(repo, proxy)`` of another property and keep the named
    obligations; fail closed if none of them was evaluated"""
    from .core import AnalysisError
    b = Borrow(rep, rule, constructs, origin)
    func(repo, b)
    if b.n < minimum:
        raise AnalysisError("borrowed obligations %s of %s vanished" % (
            list(constructs), origin))
    return b.n


# ---------------------------------------------------------------------------
# generated identifiers are identifiers


def unsafe_identifier_prefixes(repo):
    """Call sites of compiler.identifier() whose *prefix* may contain a
    character that is not legal in a Python identifier (a template name may:
    tal.NAME admits '-').  Empty if identifier() itself passes the prefix
    through mangle().  -> (analysed call sites, [(func, call, reason)])"""
    import re as _re
    idf = repo.func("chameleon.compiler.identifier")
    prm = idf.node.args.args[0].arg
    raw = []
    for n in ast.walk(idf.node):
        if isinstance(n, ast.Name) and n.id == prm and \
                isinstance(n.ctx, ast.Load):
            a = getattr(n, "_parent", None)
            wrapped = False
            while a is not None and a is not idf.node:
                if isinstance(a, ast.Call) and src(a.func) in ("mangle",
                                                                 "id"):
                    wrapped = True
                    break
                a = getattr(a, "_parent", None)
            if not wrapped:
                raw.append(n)
    sites = []
    for q, fn in sorted(repo.funcs.items()):
        for n in ast.walk(fn.node):
            if isinstance(n, ast.Call) and src(n.func) == "identifier" \
                    and n.args:
                sites.append((fn, n))
    if not raw:
        return len(sites), []

    def intlike(e, fn):
        e = inline_locals(fn.node, e)
        t = src(e)
        return bool(_re.match(r"^(str\()?id\(.*\)\)?(\.replace\('-', '_'\))?$",
                              t)) or isinstance(e, ast.Constant) and \
            isinstance(e.value, int)

    def safe(e, fn):
        if isinstance(e, ast.Constant) and isinstance(e.value, str):
            return bool(_re.match(r"^\w+$", e.value)), "constant %r" % e.value
        if isinstance(e, ast.BinOp) and isinstance(e.op, ast.Mod) and \
                isinstance(e.left, ast.Constant) and \
                isinstance(e.left.value, str) and \
                _re.match(r"^(\w|%[sd])+$", e.left.value):
            args = e.right.elts if isinstance(e.right, ast.Tuple) \
                else [e.right]
            for a in args:
                if not (intlike(a, fn) or (
                        isinstance(a, ast.Call) and
                        src(a.func) == "mangle")):
                    return False, "%s formats %s" % (src(e), src(a))
            return True, ""
        if isinstance(e, ast.Call) and src(e.func) == "mangle":
            return True, ""
        # a name taken from the node of a visit_<Kind> method: safe if every
        # constructor call of that kind passes a list of constant words
        e2 = inline_locals(fn.node, e)
        if fn.name.startswith("visit_") and \
                src(e2).startswith("node.names["):
            kind = fn.name[len("visit_"):]
            ctor = []
            for q2, f2 in repo.funcs.items():
                for c in ast.walk(f2.node):
                    if isinstance(c, ast.Call) and \
                            src(c.func) in ("nodes." + kind, kind) and c.args:
                        ctor.append(c.args[0])
            if ctor and all(isinstance(a, ast.List) and a.elts and all(
                    isinstance(x, ast.Constant) and isinstance(x.value, str)
                    and _re.match(r"^\w+$", x.value) for x in a.elts)
                    for a in ctor):
                return True, ""
        return False, src(e)
    bad = []
    for fn, call in sites:
        ok, why = safe(call.args[0], fn)
        if not ok:
            bad.append((fn, call, why))
    return len(sites), bad


# ---------------------------------------------------------------------------
# calls of emitted functions on a copy of the caller's variable scope


def scoped_call(lin, pattern):
    """Index of the fragment that contains a call matching ``pattern`` --
    whose scope argument is written ``_C`` -- such that the argument is a
    copy of the caller's scope: ``econtext.copy()`` itself, or a per-node
    generated local that an earlier fragment binds to ``econtext.copy()``.
    -> (index, key of that local or None); (-1, None) if there is none."""
    copies = {}
    other = set()
    for i, (it, conds, path) in enumerate(lin.rows):
        if not isinstance(it, A.Frag):
            continue
        for node, b in frag_find(it, "_C = _V"):
            # any other binding of the same local (in another branch of the
            # emitter: 'SCOPE = econtext' where a copy "is not needed")
            if isinstance(b["_C"], ast.Name) and \
                    src(b["_V"]) != "econtext.copy()":
                other.add(name_key(it, b["_C"]))
        for node, b in frag_find(it, "_C = econtext.copy()"):
            if isinstance(b["_C"], ast.Name):
                v = slot_value(it, b["_C"])
                if v is not None and A.per_node(v)[0]:
                    copies[name_key(it, b["_C"])] = i
        for node, b in frag_find(it, pattern, "expr"):
            c = b["_C"]
            if src(c) == "econtext.copy()":
                return i, None
            if isinstance(c, ast.Name):
                k = name_key(it, c)
                if k in copies and copies[k] < i and k not in other:
                    return i, k
    return -1, None


# ---------------------------------------------------------------------------
# word tables


def glued_words(repo, modules=None):
    """Elements of a list / tuple / set display of words (string constants
    without white space) that are written as two or more adjacent string
    literals: a lost comma glues two entries into one.
    -> (number of word tables seen, [(module, lineno, text)])"""
    import io
    import tokenize
    out = []
    n_tables = 0
    for m in repo.modules.values():
        if modules is not None and m.name not in modules:
            continue
        for n in ast.walk(m.tree):
            if not isinstance(n, (ast.List, ast.Tuple, ast.Set)):
                continue
            elts = n.elts
            if len(elts) < 2 or not all(
                    isinstance(e, ast.Constant) and isinstance(e.value, str)
                    and e.value and not any(c.isspace() for c in e.value)
                    for e in elts):
                continue
            n_tables += 1
            for e in elts:
                seg = ast.get_source_segment(m.source, e)
                if not seg:
                    continue
                try:
                    toks = [t for t in tokenize.generate_tokens(
                        io.StringIO("(" + seg + ")").readline)
                        if t.type == tokenize.STRING]
                except (tokenize.TokenError, SyntaxError):
                    continue
                if len(toks) > 1:
                    out.append((m, e.lineno, " ".join(t.string
                                                      for t in toks)))
    return n_tables, out


# ---------------------------------------------------------------------------
# G-STATE: what outlives one use


CONTAINER_CTORS = ("dict", "list", "set", "OrderedDict", "defaultdict",
                   "deque", "WeakValueDictionary", "WeakKeyDictionary",
                   "Counter")
MUTATORS = ("append", "add", "update", "setdefault", "pop", "extend",
            "insert", "clear", "remove", "appendleft", "popitem",
            "__setitem__")
SELF_MUTATORS = MUTATORS + ("set_local", "set_global")
LONG_LIVED = ("BaseTemplate", "BaseTemplateFile", "PageTemplate",
              "PageTemplateFile", "PageTextTemplate", "PageTextTemplateFile",
              "TemplateLoader", "PageTemplateLoader", "ModuleLoader",
              "MemoryLoader", "Macros", "RepeatDict", "Scope")


def _is_container(v):
    return isinstance(v, (ast.Dict, ast.List, ast.Set)) or (
        isinstance(v, ast.Call) and
        src(v.func).split(".")[-1] in CONTAINER_CTORS)


def state_census(repo, modules=None):
    """Everything in the package that can remember something from one use
    to the next: memoising decorators, module-level and class-level
    containers that functions mutate, ``global`` statements, container
    attributes of instances, and -- for the long-lived classes (templates,
    loaders) -- every attribute store outside ``__init__``.  -> set of
    (kind, owner, name)"""
    out = set()
    for m in repo.modules.values():
        if modules is not None and m.name not in modules:
            continue
        modvars = set()
        def bound(st):
            """(name, value) of a plain or annotated assignment to a name"""
            if isinstance(st, ast.Assign) and isinstance(
                    st.targets[0], ast.Name):
                return st.targets[0].id, st.value
            if isinstance(st, ast.AnnAssign) and isinstance(
                    st.target, ast.Name) and st.value is not None:
                return st.target.id, st.value
            return None, None
        for st in m.tree.body:
            nm_, val_ = bound(st)
            if nm_ is not None and _is_container(val_):
                modvars.add(nm_)
        classvars = {}
        classes = [x for x in ast.walk(m.tree) if isinstance(x, ast.ClassDef)]
        for cl in classes:
            for st in cl.body:
                nm_, val_ = bound(st)
                if nm_ is not None and _is_container(val_):
                    classvars.setdefault(nm_, set()).add(cl.name)

        def owner_of(fn):
            a = getattr(fn, "_parent", None)
            names = [fn.name]
            while a is not None:
                if isinstance(a, (ast.ClassDef, ast.FunctionDef)):
                    names.append(a.name)
                a = getattr(a, "_parent", None)
            return m.name + "." + ".".join(reversed(names))

        for fn in [x for x in ast.walk(m.tree)
                   if isinstance(x, (ast.FunctionDef, ast.AsyncFunctionDef))]:
            own = owner_of(fn)
            cls = getattr(fn, "_parent", None)
            cls = cls if isinstance(cls, ast.ClassDef) else None
            for d in fn.decorator_list:
                t = src(d)
                if "cache" in t.lower() or "memo" in t.lower():
                    out.add(("memoising decorator", own, t))
            # a local that is just another name for a shared container
            # (x = self.table; x.update(...)) mutates the container
            aliases = {}
            for a_ in ast.walk(fn):
                if isinstance(a_, ast.Assign) and len(a_.targets) == 1 and \
                        isinstance(a_.targets[0], ast.Name) and (
                            isinstance(a_.value, ast.Name) and
                            a_.value.id in modvars or
                            isinstance(a_.value, ast.Attribute) and
                            a_.value.attr in classvars):
                    aliases[a_.targets[0].id] = a_.value
            for n in ast.walk(fn):
                if isinstance(n, ast.Global):
                    for nm in n.names:
                        out.add(("global statement", own, nm))
                tgt = None
                if isinstance(n, ast.Subscript) and isinstance(
                        n.ctx, (ast.Store, ast.Del)):
                    tgt = n.value
                elif isinstance(n, ast.Call) and isinstance(
                        n.func, ast.Attribute) and n.func.attr in MUTATORS:
                    tgt = n.func.value
                if isinstance(tgt, ast.Name) and tgt.id in aliases:
                    tgt = aliases[tgt.id]
                if tgt is not None:
                    if isinstance(tgt, ast.Name) and tgt.id in modvars:
                        out.add(("module-level container mutated", own,
                                 tgt.id))
                    elif isinstance(tgt, ast.Attribute) and \
                            tgt.attr in classvars:
                        base = src(tgt.value)
                        if base in ("cls", "type(self)", "self.__class__") \
                                or base in classvars[tgt.attr] or \
                                base in [c.name for c in classes] or (
                                    base == "self" and cls is not None and
                                    not _assigned_in_init(cls, tgt.attr)):
                            out.add(("class-level container mutated", own,
                                     tgt.attr))
                if isinstance(n, ast.Assign) and cls is not None:
                    for t in n.targets:
                        if isinstance(t, ast.Attribute) and \
                                src(t.value) == "self":
                            if _is_container(n.value):
                                out.add(("container attribute",
                                         m.name + "." + cls.name, t.attr))
                            if cls.name in LONG_LIVED and \
                                    fn.name != "__init__":
                                out.add(("attribute store outside "
                                         "__init__",
                                         m.name + "." + cls.name, t.attr))
                if isinstance(n, ast.Call) and cls is not None and \
                        cls.name in LONG_LIVED and fn.name != "__init__" and \
                        src(n.func) in ("setattr", "object.__setattr__") and \
                        n.args and src(n.args[0]) == "self":
                    out.add(("attribute store outside __init__",
                             m.name + "." + cls.name,
                             src(n.args[1])[:40] if len(n.args) > 1 else "?"))
                if isinstance(n, ast.Call) and cls is not None and \
                        cls.name in LONG_LIVED and fn.name != "__init__" and \
                        isinstance(n.func, ast.Attribute) and \
                        n.func.attr in SELF_MUTATORS and (
                            src(n.func.value) in ("self", "super()") or (
                                src(n.func.value) in ("dict", "object")
                                and n.args and src(n.args[0]) == "self")):
                    out.add(("object mutates itself", own, n.func.attr))
                if isinstance(n, ast.Subscript) and isinstance(
                        n.ctx, ast.Store) and cls is not None and \
                        cls.name in LONG_LIVED and fn.name != "__init__" and \
                        src(n.value) == "self":
                    out.add(("object mutates itself", own, "[...] ="))
                if isinstance(n, ast.Subscript) and isinstance(
                        n.ctx, ast.Store) and cls is not None and \
                        cls.name in LONG_LIVED and fn.name != "__init__" and \
                        src(n.value) == "self.__dict__":
                    out.add(("attribute store outside __init__",
                             m.name + "." + cls.name, src(n.slice)[:40]))
    return out


def _assigned_in_init(cls, attr):
    for st in cls.body:
        if isinstance(st, ast.FunctionDef) and st.name == "__init__":
            for n in ast.walk(st):
                if isinstance(n, ast.Assign):
                    for t in n.targets:
                        if isinstance(t, ast.Attribute) and \
                                src(t.value) == "self" and t.attr == attr:
                            return True
    return False


def g_state(repo, rep, rule, modules, site):
    """The census of ``modules`` equals the reviewed one
    (reference_state.json): a new memo, shared container or remembered
    attribute has to be reviewed (is its key complete? can a second use
    see the first?) before it is accepted."""
    import json
    import os
    path = os.path.join(os.path.dirname(os.path.abspath(__file__)),
                        "reference_state.json")
    try:
        with open(path) as fh:
            ref = {tuple(x) for x in json.load(fh)["census"]}
    except (OSError, KeyError, ValueError) as exc:
        raise AnalysisError("reference_state.json unreadable: %s" % exc)
    now = state_census(repo, modules)
    scoped = {x for x in ref if x[1].rsplit(".", 1)[0] in modules or
              any(x[1].startswith(mn + ".") for mn in modules)}
    new = sorted(now - ref)
    rep.check(not new, rule, site, "nothing remembers more between two uses "
              "(two elements, two renders, two templates of one process) "
              "than on the reviewed tree: no new memoising decorator, "
              "shared container, global, container attribute or attribute "
              "store of a long-lived object (%d reviewed item(s) in %d "
              "module(s))" % (len(scoped), len(modules)),
              construct="unreviewed-state",
              detail="; ".join("%s %s: %s" % x for x in new[:4]))
    if len(now) < 5 and len(modules) > 3:
        raise AnalysisError("state census found only %d item(s)" % len(now))
    return new


# modules that hold state a property depends on although its anchors do
# not name them (one line of reason each)
STATE_EXTRA = {
    # the expression compilers hold the tokens that error frames quote
    "C12": {"chameleon.tales", "chameleon.zpt.program"},
    # (... code blocks and expressions pass the name rewriter; the element
    # program hands the options to the parser)
    "C11": {"chameleon.tales", "chameleon.astutil", "chameleon.program"},
    # the load: expression type lives with the other expression types
    "C16": {"chameleon.tales"},
    # the repeat dictionary is created per render by the template class
    "C08": {"chameleon.zpt.template"},
    "C01": {"chameleon.zpt.template", "chameleon.utils"},
    # escape sets travel through the expression engines
    # (... and bytes values are decoded by the wrapper render() installs)
    "C02": {"chameleon.tales", "chameleon.zpt.template"},
    # the token of a deferred error carries position and file name
    "C19": {"chameleon.tokenize"},
}


def state_rule(repo, rep, rule=None):
    """G-STATE for one property: the modules its anchors name (all of the
    package for C14), rule id R<nn>.S"""
    import json
    import os
    from .core import VERIF
    prop = rep.prop
    rule = rule or "R%s.S" % prop[1:]
    mods = None
    try:
        with open(os.path.join(VERIF, "properties.jsonl")) as fh:
            for ln in fh:
                pj = json.loads(ln)
                if pj["id"] == prop:
                    mods = set()
                    for f in pj["anchors"]["files"]:
                        mn = f.replace("src/", "").replace(".py", "") \
                            .replace("/", ".")
                        mods.add(mn[:-len(".__init__")]
                                 if mn.endswith(".__init__") else mn)
    except OSError as exc:
        raise AnalysisError("properties.jsonl unreadable: %s" % exc)
    if not mods:
        raise AnalysisError("no anchor files for %s" % prop)
    mods |= STATE_EXTRA.get(prop, set())
    if prop == "C14":
        mods = set(repo.modules)
    mods = {mn for mn in mods if mn in repo.modules}
    rep.rule(rule, "G-STATE: the census of state that outlives one use "
                   "(memoising decorators, shared containers, globals, "
                   "container attributes, attribute stores of templates "
                   "and loaders) in the property's modules equals the "
                   "reviewed one")
    r = g_state(repo, rep, rule, mods, "%s modules" % prop)
    argswap_rule(repo, rep, mods=mods)
    noneflow_rule(repo, rep, mods=mods)
    shape_rule(repo, rep, mods=mods)
    kind_rule(repo, rep, mods=mods)
    return r


# ---------------------------------------------------------------------------
# G-SHAPE: three shapes that a dropped element / keyword turns into code
# which still compiles and fails (or silently misses) only when reached
#  - every UPPER-CASE placeholder of a code fragment handed to template() is
#    supplied by a keyword (otherwise the name stays in the generated code:
#    NameError when the construct is rendered)
#  - nothing iterates over / tests membership in a string constant of more
#    than one character (a parenthesised tuple that lost its comma)
#  - a dictionary that is keyed by pairs everywhere is keyed by a pair at
#    every site (the namespace-qualified attribute tables)


def fold_in_func(repo, f, node):
    """constant value of ``node`` inside function ``f``: like Repo.fold, with
    ``self.<name>`` / ``cls.<name>`` read from the class (its MRO) when the
    class binds the name to a constant"""
    from .core import clone_ast
    ci = getattr(f, "cls", None)
    if ci is not None and any(
            isinstance(x, ast.Attribute) and isinstance(x.value, ast.Name)
            and x.value.id in ("self", "cls") for x in ast.walk(node)):
        class Sub(ast.NodeTransformer):
            def visit_Attribute(self, n):
                if isinstance(n.value, ast.Name) and n.value.id in (
                        "self", "cls"):
                    v, owner = repo.class_attr(ci, n.attr)
                    if v is not None:
                        return clone_ast(v)
                return self.generic_visit(n)
        node = Sub().visit(clone_ast(node))
    return repo.fold(node, f.module)


def _fragment_placeholders(repo, f, arg):
    import re as _re
    import textwrap
    try:
        text = fold_in_func(repo, f, arg)
    except Exception:
        text = None
    if isinstance(text, str):
        for cand in (text, textwrap.dedent(text)):
            try:
                tree = ast.parse(cand)
            except SyntaxError:
                continue
            return {x.id for x in ast.walk(tree) if isinstance(x, ast.Name)
                    and _re.fullmatch(r"[A-Z][A-Z0-9_]+", x.id)}
    out = set()
    for c in ast.walk(arg):
        if isinstance(c, ast.Constant) and isinstance(c.value, str):
            out |= set(_re.findall(r"(?<![\w'\"])[A-Z][A-Z0-9_]+(?![\w'\"])",
                                   c.value))
    return out


def shape_sites(repo, mods=None):
    """-> (fragments, [(func, call, missing)]), (iterations, [(func, node)]),
    (pair-keyed accesses, [(func, node, key)])"""
    frag_n, frag_bad = 0, []
    it_n, it_bad = 0, []
    keys = {}
    for q, f in sorted(repo.funcs.items()):
        if mods is not None and f.module.name not in mods:
            continue
        for n in ast.walk(f.node):
            if isinstance(n, ast.Call) and src(n.func) == "template" and \
                    n.args:
                if any(k.arg is None for k in n.keywords):
                    continue
                frag_n += 1
                miss = _fragment_placeholders(repo, f, n.args[0]) - \
                    {k.arg for k in n.keywords}
                if miss:
                    frag_bad.append((f, n, sorted(miss)))
            its = []
            if isinstance(n, ast.For):
                its.append(n.iter)
            if isinstance(n, (ast.ListComp, ast.SetComp, ast.GeneratorExp,
                              ast.DictComp)):
                its += [g.iter for g in n.generators]
            if isinstance(n, ast.Compare) and len(n.ops) == 1 and \
                    isinstance(n.ops[0], (ast.In, ast.NotIn)):
                its.append(n.comparators[0])
            for it in its:
                it_n += 1
                if isinstance(it, ast.Name):
                    # one level of a local that is assigned once
                    defs = [a.value for a in ast.walk(f.node)
                            if isinstance(a, ast.Assign) and any(
                                isinstance(t, ast.Name) and t.id == it.id
                                for t in a.targets)]
                    flat = []
                    while defs:
                        d = defs.pop()
                        if isinstance(d, ast.IfExp):
                            defs += [d.body, d.orelse]
                        else:
                            flat.append(d)
                    defs = flat
                    strs = [d for d in defs if isinstance(d, ast.Constant)
                            and isinstance(d.value, str)]
                    if strs and (len(strs) == 1 or any(
                            isinstance(d, ast.Tuple) for d in defs)):
                        it = strs[0]
                if isinstance(it, ast.Constant) and \
                        isinstance(it.value, str) and len(it.value) > 1 \
                        and isinstance(n, (ast.For, ast.ListComp, ast.SetComp,
                                           ast.GeneratorExp, ast.DictComp)):
                    it_bad.append((f, n))
            k = None
            if isinstance(n, ast.Call) and isinstance(
                    n.func, ast.Attribute) and n.func.attr in (
                        "get", "pop", "setdefault") and isinstance(
                            n.func.value, ast.Name) and n.args:
                k = (n.func.value.id, n.args[0])
            elif isinstance(n, ast.Subscript) and isinstance(n.value,
                                                             ast.Name):
                k = (n.value.id, n.slice)
            elif isinstance(n, ast.Compare) and len(n.ops) == 1 and \
                    isinstance(n.ops[0], (ast.In, ast.NotIn)) and \
                    isinstance(n.comparators[0], ast.Name):
                k = (n.comparators[0].id, n.left)
            if k is not None:
                keys.setdefault((f.module.name, k[0]), []).append(
                    (f, n, k[1]))
    key_n, key_bad = 0, []
    for (mn, name), sites in keys.items():
        pairs = [x for x in sites if isinstance(x[2], ast.Tuple)
                 and len(x[2].elts) == 2]
        if len(pairs) < 5:
            continue
        key_n += len(sites)
        for f, n, k in sites:
            if isinstance(k, ast.Tuple) and len(k.elts) == 2:
                continue
            if isinstance(k, (ast.Name, ast.Starred)) and not (
                    isinstance(k, ast.Name) and k.id.isupper()):
                continue              # a key held in a variable
            key_bad.append((f, n, k))
    return (frag_n, frag_bad), (it_n, it_bad), (key_n, key_bad)


def typed_value_sites(repo, mods=None):
    """isinstance(E.value, T): E.value exists for constant nodes only; the
    test has to be preceded by isinstance(E, <class>) -- as an earlier
    operand of the same 'and' (or, negated, of the same 'or'), or as an
    enclosing condition.  -> (sites, [(func, call)] unguarded)"""
    n, bad = 0, []
    for q, f in sorted(repo.funcs.items()):
        if mods is not None and f.module.name not in mods:
            continue
        for c in ast.walk(f.node):
            if not (isinstance(c, ast.Call) and src(c.func) == "isinstance"
                    and len(c.args) == 2 and
                    isinstance(c.args[0], ast.Attribute) and
                    c.args[0].attr == "value"):
                continue
            base = src(c.args[0].value)
            guards = []
            node = c
            par = getattr(node, "_parent", None)
            neg = False
            if isinstance(par, ast.UnaryOp) and isinstance(par.op, ast.Not):
                node, par, neg = par, getattr(par, "_parent", None), True
            if isinstance(par, ast.BoolOp):
                for v in par.values[:par.values.index(node)]:
                    if isinstance(par.op, ast.And) and not neg:
                        guards.append(src(v))
                    if isinstance(par.op, ast.Or) and neg and isinstance(
                            v, ast.UnaryOp) and isinstance(v.op, ast.Not):
                        guards.append(src(v.operand))
                node = par
            for t_, v_ in guards_of(node, f.node):
                if isinstance(t_, ast.expr) and v_:
                    guards += [src(x) for x in (
                        t_.values if isinstance(t_, ast.BoolOp) and
                        isinstance(t_.op, ast.And) else [t_])]
            n += 1
            if not any(g.startswith("isinstance(%s, " % base)
                       for g in guards):
                bad.append((f, c))
    return n, bad


CODEC_ERROR_HANDLERS = {"strict", "ignore", "replace", "xmlcharrefreplace",
                        "backslashreplace", "namereplace", "surrogateescape",
                        "surrogatepass"}
STATEMENT_NAMESPACES = {"TAL": "chameleon.tal", "METAL": "chameleon.metal",
                        "I18N": "chameleon.i18n"}


def constant_sites(repo, mods=None):
    """two more places where a string constant has to be one of a known
    few: the error handler of an encode / decode call; the statement name of
    a (namespace, name) key  -> (sites, [(func, node, construct, text)])"""
    n, bad = 0, []
    wl = {}
    for ns, mn in STATEMENT_NAMESPACES.items():
        try:
            wl[ns] = set(repo.const(mn, "WHITELIST"))
        except Exception:
            pass
    wl["META"] = {"interpolation"}
    for q, f in sorted(repo.funcs.items()):
        if mods is not None and f.module.name not in mods:
            continue
        idents = {}
        for c in ast.walk(f.node):
            if isinstance(c, ast.Call) and isinstance(c.func, ast.Attribute) \
                    and c.func.attr in ("encode", "decode"):
                cls_call = src(c.func.value) in ("bytes", "str")
                pos = 2 if cls_call else 1
                h = c.args[pos] if len(c.args) > pos else next(
                    (k.value for k in c.keywords if k.arg == "errors"), None)
                if isinstance(h, ast.Constant) and isinstance(h.value, str):
                    n += 1
                    if h.value not in CODEC_ERROR_HANDLERS:
                        bad.append((f, c, "codec-error-handler",
                                    "%r is no error handler" % h.value))
            if isinstance(c, ast.Tuple) and len(c.elts) == 2 and \
                    isinstance(c.elts[0], ast.Name) and \
                    c.elts[0].id in wl and \
                    isinstance(c.elts[1], ast.Constant) and \
                    isinstance(c.elts[1].value, str) and \
                    isinstance(getattr(c, "ctx", ast.Load()), ast.Load):
                n += 1
                if c.elts[1].value not in wl[c.elts[0].id]:
                    bad.append((f, c, "pair-key-known:%s" % src(c),
                                "%s has no statement %r" % (
                                    c.elts[0].id, c.elts[1].value)))
    return n, bad


def shape_rule(repo, rep, rule=None, mods=None):
    rule = rule or "R%s.P" % rep.prop[1:]
    (fn, fb), (inn, ib), (kn, kb) = shape_sites(repo, mods)
    tn, tb = typed_value_sites(repo, mods)
    cn, cb = constant_sites(repo, mods)
    tn += cn
    if fn + inn + kn + tn == 0:
        return 0
    for f, c, construct, text in cb:
        rep.bad(rule, f.qualname, "a string constant that names an error "
                "handler or a statement is one that exists", construct,
                where=where(f, c.lineno), detail=text)
    for f, c in tb:
        rep.bad(rule, f.qualname, "the value of a node is type-tested only "
                "after the node is known to be of a class that has one "
                "(AttributeError for any other node: a valid template is "
                "rejected)", "typed-value:%s" % src(c.args[0])[:40],
                where=where(f, c.lineno), detail=src(c))
    rep.rule(rule, "G-SHAPE: code-fragment placeholders are supplied, "
                   "nothing iterates over a string constant, pair-keyed "
                   "tables are read by pairs")
    for f, n, miss in fb:
        rep.bad(rule, f.qualname, "every placeholder of the fragment is "
                "supplied by a keyword (a leftover name is a NameError when "
                "the construct is rendered)",
                "placeholder:%s" % ",".join(miss), where=where(f, n.lineno),
                detail=src(n)[:120])
    for f, n in ib:
        rep.bad(rule, f.qualname, "iteration runs over a sequence of names, "
                "not over the characters of one string",
                "string-iterated", where=where(f, n.lineno),
                detail=src(n)[:120])
    for f, n, k in kb:
        rep.bad(rule, f.qualname, "a table keyed by (namespace, name) pairs "
                "is read by a pair", "pair-key:%s" % src(k)[:40],
                where=where(f, n.lineno), detail=src(n)[:120])
    if not (fb or ib or kb or tb or cb):
        rep.ok(rule, "%s modules" % rep.prop, "G-SHAPE: %d fragments with "
               "their placeholders supplied, %d iterations / membership "
               "tests over real sequences, %d pair-keyed accesses, %d "
               "guarded value tests" % (fn, inn, kn, tn))
    return fn + inn + kn + tn


# ---------------------------------------------------------------------------
# G-KIND: four contradictions between what a value is called / declared and
# what it is given (each compiles, each fails or misbehaves only when reached)
#  - a function whose declared result does not admit None has no
#    'return None' / bare 'return'
#  - a conditional expression has two different branches
#  - a local named like an attribute of the object it is read from is bound
#    from THAT attribute (args = node.body, translate = self.encoding)
#  - a parameter named like an attribute of the caller's own object is given
#    that attribute when it is given one of them at all
#    (parse_tag(..., restricted_namespace <- self.index))


def _node_fields(repo, f):
    """field names of the node a visit_<Kind> method is about"""
    name = f.node.name
    out = set()
    kinds = []
    if name.startswith("visit_"):
        kinds = [name[len("visit_"):]]
    elif "comprehension" in name:
        kinds = ["ListComp", "SetComp", "GeneratorExp", "DictComp"]
    for k in kinds:
        cls = getattr(ast, k, None)
        if cls is not None and hasattr(cls, "_fields"):
            out |= set(cls._fields)
        try:
            ci = repo.cls("chameleon.nodes." + k)
        except Exception:
            ci = None
        if ci is not None:
            for b in repo.mro(ci):
                if "_fields" in b.attrs:
                    try:
                        out |= set(repo.fold(b.attrs["_fields"],
                                             repo.module("chameleon.nodes")))
                    except Exception:
                        pass
                    break
    return out


# The first and the last of the four are armed per instance: a general form
# of either ("no function declared -> T returns None", "no parameter named
# like an attribute gets another attribute") also reports edits the triage
# of the fifth sweep found equivalent -- results nobody looks at beyond their
# truth, parameters of calls in unreachable branches.  Listed are the
# instances where the demonstration exists (seeded/<prop>-x<id>-...).
RESULTS_ARMED = {
    # the rewritten node replaces the original in its parent
    "chameleon.astutil.NameLookupRewriteVisitor.visit_Lambda",
    "chameleon.astutil.NameLookupRewriteVisitor._visit_comprehension",
    "chameleon.astutil.NameLookupRewriteVisitor.visit_alias",
    "chameleon.astutil.NameLookupRewriteVisitor.visit_arg",
    # the replacement text of an entity
    "chameleon.utils.substitute_entity",
    # repeat.x.number() is repeat.x.number
    "chameleon.utils.callableint.__call__",
    # a cut argument in an error report
    "chameleon.utils.limit_string",
    # a component of the cache key
    "chameleon.zpt.template._stable_name",
}
PARAMS_ARMED = {
    ("chameleon.parser.ElementParser.visit_start_tag",
     "restricted_namespace"),
    ("chameleon.parser.ElementParser.visit_empty_tag",
     "restricted_namespace"),
    ("chameleon.program.ElementProgram.__init__", "restricted_namespace"),
    ("chameleon.tales.ProxyExpr.translate_proxy", "braces_required"),
}


def kind_sites(repo, mods=None):
    n, bad = 0, []
    cls_attrs = {}
    for q, f in repo.funcs.items():
        if f.cls is None:
            continue
        key = id(f.cls)
        for x in ast.walk(f.node):
            if isinstance(x, ast.Attribute) and isinstance(
                    x.value, ast.Name) and x.value.id == "self":
                cls_attrs.setdefault(key, set()).add(x.attr)
    for q, f in sorted(repo.funcs.items()):
        if mods is not None and f.module.name not in mods:
            continue
        r = f.node.returns
        rt = src(r) if r is not None else None
        nested = {id(y) for x in ast.walk(f.node)
                  if isinstance(x, (ast.FunctionDef, ast.Lambda,
                                    ast.AsyncFunctionDef))
                  and x is not f.node for y in ast.walk(x)}
        if rt is not None and q in RESULTS_ARMED and not any(
                w in rt for w in ("None", "Optional", "Any", "NoReturn",
                                  "Iterator", "Generator", "Iterable")):
            n += 1
            for x in ast.walk(f.node):
                if id(x) in nested:
                    continue
                if isinstance(x, ast.Return) and (
                        x.value is None or (isinstance(x.value, ast.Constant)
                                            and x.value.value is None)):
                    bad.append((f, x, "returns-declared",
                                "declared -> %s, returns None" % rt))
        known_self = set(cls_attrs.get(id(f.cls), set())) \
            if f.cls is not None else set()
        if f.cls is not None:
            try:
                for b in repo.mro(f.cls):
                    known_self |= set(b.attrs) | set(b.methods)
            except Exception:
                pass
        nf = _node_fields(repo, f)
        local_attrs = {}
        for x in ast.walk(f.node):
            if isinstance(x, ast.Attribute) and isinstance(x.value, ast.Name):
                local_attrs.setdefault(x.value.id, set()).add(x.attr)
        for x in ast.walk(f.node):
            if isinstance(x, ast.IfExp):
                n += 1
                if src(x.body) == src(x.orelse):
                    bad.append((f, x, "conditional-two-branches",
                                "both branches are %s" % src(x.body)[:40]))
            if isinstance(x, ast.Assign) and len(x.targets) == 1 and \
                    isinstance(x.targets[0], ast.Name) and \
                    isinstance(x.value, ast.Attribute) and \
                    isinstance(x.value.value, ast.Name):
                X, Y, base = x.targets[0].id, x.value.attr, x.value.value.id
                known = set(local_attrs.get(base, ()))
                if base == "self":
                    known |= known_self
                if base == "node":
                    known |= nf
                if X == Y:
                    n += 1
                elif X in known:
                    bad.append((f, x, "local-named-like-attribute:%s" % X,
                                "%s is bound from %s.%s while %s.%s exists"
                                % (X, base, Y, base, X)))
            if isinstance(x, ast.Call) and known_self and not any(
                    isinstance(a, ast.Starred) for a in x.args):
                rr = _callee_params(repo, f, x)
                if rr is None:
                    continue
                params, cq, has_var = rr
                given = [(params[i], a) for i, a in enumerate(x.args)
                         if i < len(params)] + [
                             (k.arg, k.value) for k in x.keywords if k.arg]
                for pn, a in given:
                    if isinstance(a, ast.Attribute) and isinstance(
                            a.value, ast.Name) and a.value.id == "self" and \
                            pn in known_self and (q, pn) in PARAMS_ARMED:
                        n += 1
                        if a.attr != pn:
                            bad.append((f, x, "parameter-named-like-"
                                        "attribute:%s" % pn, "parameter %s "
                                        "of %s gets self.%s while self.%s "
                                        "exists" % (pn, cq.split(".")[-1],
                                                    a.attr, pn)))
    return n, bad


_CONTAINER_ATTRS = set(dir(set)) | set(dir(list)) | set(dir(dict)) | \
    set(dir(tuple)) | set(dir(frozenset))


def binding_sites(repo, mods=None):
    """two more contradictions, decided per function without its callers:
    a local is read on a line before the first line that binds it (outside
    any loop that contains a binding): UnboundLocalError when reached; an
    attribute that no built-in container has is read from or stored on a
    local whose every binding is a set / list / dict / tuple construct"""
    n, bad = 0, []
    for q, f in sorted(repo.funcs.items()):
        if mods is not None and f.module.name not in mods:
            continue
        a_ = f.node.args
        params = {x.arg for x in a_.posonlyargs + a_.args + a_.kwonlyargs}
        for v in (a_.vararg, a_.kwarg):
            if v is not None:
                params.add(v.arg)
        nested = {id(y) for x in ast.walk(f.node) if isinstance(
            x, (ast.FunctionDef, ast.AsyncFunctionDef, ast.Lambda,
                ast.ClassDef, ast.ListComp, ast.GeneratorExp, ast.SetComp,
                ast.DictComp)) and x is not f.node for y in ast.walk(x)}
        stores, loads = {}, []
        for x in ast.walk(f.node):
            if id(x) in nested:
                continue
            if isinstance(x, ast.Name):
                if isinstance(x.ctx, (ast.Store, ast.Del)):
                    stores.setdefault(x.id, []).append(x)
                else:
                    loads.append(x)
            elif isinstance(x, (ast.Import, ast.ImportFrom)):
                for al in x.names:
                    stores.setdefault((al.asname or al.name).split(".")[0],
                                      []).append(x)
            elif isinstance(x, ast.ExceptHandler) and x.name:
                stores.setdefault(x.name, []).append(x)
        free = {nm for x in ast.walk(f.node)
                if isinstance(x, (ast.Global, ast.Nonlocal))
                for nm in x.names}
        for l_ in loads:
            if l_.id in params or l_.id in free or l_.id not in stores:
                continue
            n += 1
            if l_.lineno >= min(s_.lineno for s_ in stores[l_.id]):
                continue
            a = getattr(l_, "_parent", None)
            inloop = False
            while a is not None and a is not f.node:
                if isinstance(a, (ast.For, ast.While)) and any(
                        a.lineno <= s_.lineno <= a.end_lineno
                        for s_ in stores[l_.id]):
                    inloop = True
                a = getattr(a, "_parent", None)
            if not inloop:
                bad.append((f, l_, "read-before-bound:%s" % l_.id,
                            "%s is read on line %d, first bound on line %d"
                            % (l_.id, l_.lineno,
                               min(s_.lineno for s_ in stores[l_.id]))))
        kinds = {}
        for x in ast.walk(f.node):
            if isinstance(x, ast.Assign) and len(x.targets) == 1 and \
                    isinstance(x.targets[0], ast.Name):
                v = x.value
                k = None
                if isinstance(v, (ast.Set, ast.SetComp, ast.List,
                                  ast.ListComp, ast.Dict, ast.DictComp,
                                  ast.Tuple)) or (
                        isinstance(v, ast.Call) and src(v.func) in (
                            "set", "frozenset", "list", "sorted", "tuple",
                            "dict")):
                    k = "container"
                kinds.setdefault(x.targets[0].id, set()).add(k)
        # (... a local that the function itself iterates over, and that is
        # no parameter, is a container too)
        for x in ast.walk(f.node):
            its = []
            if isinstance(x, ast.For):
                its.append(x.iter)
            if isinstance(x, (ast.ListComp, ast.GeneratorExp, ast.SetComp,
                              ast.DictComp)):
                its += [g.iter for g in x.generators]
            for it in its:
                if isinstance(it, ast.Name) and it.id not in params and \
                        None in kinds.get(it.id, {None}):
                    kinds[it.id] = {"container"}
        for x in ast.walk(f.node):
            if isinstance(x, ast.Attribute) and isinstance(
                    x.value, ast.Name) and x.value.id not in params and \
                    kinds.get(x.value.id) == {"container"}:
                n += 1
                if x.attr not in _CONTAINER_ATTRS:
                    bad.append((f, x, "container-attribute:%s" % src(x),
                                "%s is a plain container: it has no "
                                "attribute %s" % (x.value.id, x.attr)))
    return n, bad


# Branches that no template can reach (reviewed; the triage of the sweeps
# found every edit inside them equivalent).  A G-KIND report whose site lies
# under one of these tests is dropped -- one line of reason each.
UNREACHABLE = {
    # an Interpolation always wraps a Substitution (program.py builds it so)
    ("chameleon.compiler.ExpressionTransform.visit_Interpolation",
     "not isinstance(expr, Substitution)"),
    # resolve_dotted() passes no module: a relative name raises before
    ("chameleon.utils._resolve_dotted", "not name_parts[0]"),
    # the legacy evaluator is used by no template
    ("chameleon.compiler.ExpressionEvaluator.__call__", None),
}


def _unreachable(f, node):
    q = f.qualname
    for fq, test in UNREACHABLE:
        if fq != q:
            continue
        if test is None:
            return True
        for t_, v_ in guards_of(node, f.node):
            if isinstance(t_, ast.expr) and (
                    (v_ and src(t_) == test) or
                    (not v_ and "not " + src(t_) == test)):
                return True
    return False


def kind_rule(repo, rep, rule=None, mods=None):
    rule = rule or "R%s.K" % rep.prop[1:]
    n, bad = kind_sites(repo, mods)
    n2, bad2 = binding_sites(repo, mods)
    n += n2
    bad = [b for b in bad + bad2 if not _unreachable(b[0], b[1])]
    if n == 0:
        return 0
    rep.rule(rule, "G-KIND: declared results are returned, conditionals "
                   "have two branches, locals and parameters named like an "
                   "attribute get that attribute")
    for f, x, construct, text in bad:
        rep.bad(rule, f.qualname, "what a value is called or declared "
                "agrees with what it is given", construct,
                where=where(f, x.lineno), detail=text)
    if not bad:
        rep.ok(rule, "%s modules" % rep.prop, "G-KIND: %d declared results, "
               "conditionals, name-matched bindings and arguments agree" % n)
    return n


# ---------------------------------------------------------------------------
# string formatting, whatever its spelling ('..{}..'.format(a), f-strings and
# '..%s..' % a all reach the rules as the %-form: alpha.py)


def fmt_sites(node):
    """-> [(format text, [argument nodes], node)] of the %-formattings with
    a constant format string below ``node``"""
    out = []
    for n in ast.walk(node):
        if isinstance(n, ast.BinOp) and isinstance(n.op, ast.Mod) and \
                isinstance(n.left, ast.Constant) and \
                isinstance(n.left.value, str):
            args = list(n.right.elts) if isinstance(n.right, ast.Tuple) \
                else [n.right]
            out.append((n.left.value, args, n))
    return out


def inlined_text(fnode, expr_or_text):
    """source text of an expression (a node of ``fnode`` or a text written
    with fnode's local names) with every single-assignment local replaced by
    its value: two spellings of one condition, with and without named
    intermediate values, read the same"""
    e = expr_or_text
    if isinstance(e, str):
        e = ast.parse(e, mode="eval").body
    return src(inline_locals(fnode, e))


# ---------------------------------------------------------------------------
# G-ARGSWAP: an argument named like another parameter of the callee


def _callee_params(repo, f, call):
    """positional parameter names of the function / class a call resolves to
    (methods without self; node classes by their ``_fields``) or None"""
    fn = call.func
    mod = f.module
    target = None
    if isinstance(fn, ast.Attribute) and isinstance(fn.value, ast.Name) and \
            fn.value.id in ("str", "bytes") and \
            fn.value.id not in mod.assigns and (
                hasattr(str, fn.attr) or hasattr(bytes, fn.attr)):
        # a str / bytes method called through the class: the receiver comes
        # first, then the method's own parameters
        table = {"decode": ["encoding", "errors"],
                 "encode": ["encoding", "errors"],
                 "find": ["sub", "start", "end"],
                 "rfind": ["sub", "start", "end"],
                 "index": ["sub", "start", "end"],
                 "split": ["sep", "maxsplit"], "rsplit": ["sep", "maxsplit"],
                 "replace": ["old", "new", "count"],
                 "startswith": ["prefix", "start", "end"],
                 "endswith": ["suffix", "start", "end"],
                 "strip": ["chars"], "lstrip": ["chars"],
                 "rstrip": ["chars"], "join": ["iterable"]}
        return ["self"] + table.get(fn.attr, []), \
            "%s.%s" % (fn.value.id, fn.attr), False
    if isinstance(fn, ast.Attribute) and isinstance(fn.value, ast.Name) and \
            fn.value.id in ("self", "cls") and f.cls is not None:
        m = repo.method(f.cls, fn.attr)
        if m is not None:
            target = ("func", m)
    elif isinstance(fn, (ast.Name, ast.Attribute)):
        target = repo.resolve_attr(mod, fn)
    if not target:
        return None
    if target[0] == "func":
        g = target[1]
        a = g.node.args
        names = [x.arg for x in a.posonlyargs + a.args]
        if g.cls is not None and names and not any(
                src(d) == "staticmethod" for d in g.node.decorator_list):
            names = names[1:]
        return names, g.qualname, a.vararg is not None
    if target[0] == "class":
        ci = target[1]
        init = repo.method(ci, "__init__") or repo.method(ci, "__new__")
        fields, _k = repo.class_attr(ci, "_fields")
        if fields is not None and isinstance(fields, (ast.Tuple, ast.List)) \
                and all(isinstance(e, ast.Constant) for e in fields.elts):
            return [e.value for e in fields.elts], ci.qualname, False
        if fields is not None and isinstance(fields, ast.Constant) and \
                isinstance(fields.value, str):
            return [fields.value], ci.qualname, False
        if init is not None and init.cls is not None and \
                init.module.name.startswith("chameleon"):
            a = init.node.args
            return [x.arg for x in a.posonlyargs + a.args][1:], \
                ci.qualname, a.vararg is not None
    return None


def argswap_sites(repo, mods=None):
    """Call sites of package functions / node classes where a positional
    argument is a plain name that is the name of ANOTHER parameter of the
    callee, while that other parameter is given something else: the caller
    holds a value it calls 'key' and passes it as 'translate'.
    -> (number of calls with a resolvable callee, number of name-matched
    arguments, [(Func, call, description)])"""
    n_calls = n_named = 0
    bad = []
    for q, f in sorted(repo.funcs.items()):
        if mods is not None and f.module.name not in mods:
            continue
        for c in ast.walk(f.node):
            if not isinstance(c, ast.Call) or any(
                    isinstance(a, ast.Starred) for a in c.args):
                continue
            r = _callee_params(repo, f, c)
            if r is None:
                continue
            params, cq, has_var = r
            n_calls += 1
            given = {}
            for i, a in enumerate(c.args):
                if i < len(params):
                    given[params[i]] = a
            for k in c.keywords:
                if k.arg:
                    given[k.arg] = k.value
            def label(e):
                """the name an argument goes by: a plain name, or the last
                attribute of a dotted one (exc.msg -> msg)"""
                if isinstance(e, ast.Name):
                    return e.id
                if isinstance(e, ast.Attribute):
                    return e.attr
                return None
            for i, a in enumerate(c.args):
                if i >= len(params):
                    continue
                an = label(a)
                if an is None:
                    continue
                if an == params[i]:
                    n_named += 1
                    continue
                if an == "self" and isinstance(a, ast.Name) and \
                        params and params[0] == "self" and i > 0:
                    bad.append((f, c, "the receiver 'self' is passed as "
                                "parameter '%s' of %s" % (params[i], cq)))
                    continue
                if an in params and an != "self":
                    other = given.get(an)
                    if other is None or label(other) != an:
                        bad.append((f, c, "'%s' is passed as parameter '%s' "
                                    "of %s, whose parameter '%s' gets %s" % (
                                        src(a)[:30], params[i],
                                        cq.split(".")[-1], an,
                                        src(other)[:40]
                                        if other is not None else "nothing")))
    return n_calls, n_named, bad


def isinstance_sites(repo, mods=None):
    """isinstance(X, T): T names types, X does not -- ``isinstance(ast.Name,
    target)`` raises TypeError for every target"""
    n = 0
    bad = []
    for q, f in sorted(repo.funcs.items()):
        if mods is not None and f.module.name not in mods:
            continue
        for c in ast.walk(f.node):
            if isinstance(c, ast.Call) and src(c.func) in (
                    "isinstance", "issubclass") and len(c.args) == 2:
                n += 1

                def typeish(e):
                    if isinstance(e, ast.Tuple):
                        return bool(e.elts) and all(typeish(x)
                                                    for x in e.elts)
                    nm = e.attr if isinstance(e, ast.Attribute) else (
                        e.id if isinstance(e, ast.Name) else None)
                    if nm is None:
                        return False
                    if nm in ("str", "bytes", "int", "float", "bool", "list",
                              "tuple", "dict", "set", "type", "object"):
                        return True
                    r = repo.resolve_attr(f.module, e)
                    if r and r[0] == "class":
                        return True
                    return nm[:1].isupper() and not nm.isupper()
                if src(c.func) == "isinstance" and typeish(c.args[0]) and \
                        not typeish(c.args[1]):
                    bad.append((f, c))
    return n, bad


def argswap_rule(repo, rep, rule=None, mods=None):
    rule = rule or "R%s.A" % rep.prop[1:]
    rep.rule(rule, "G-ARGSWAP: no call passes a value the caller names like "
                   "one parameter of the callee in the place of another")
    n_calls, n_named, bad = argswap_sites(repo, mods)
    if n_calls < 200 and mods is None:
        raise AnalysisError("only %d resolvable calls found" % n_calls)
    rep.count("resolved_calls", n_calls)
    for f, c, why in bad:
        rep.bad(rule, f.qualname, "arguments reach the parameters they are "
                "named after", construct="argswap:%s" % src(c.func)[:40],
                detail=why, where=where(f, c.lineno))
    rep.check(not bad, rule, "chameleon.*", "%d calls of package functions "
              "and node classes resolved, %d arguments named like their "
              "parameter, none named like a different one" % (
                  n_calls, n_named), construct="argswap")
    ni, ib = isinstance_sites(repo, mods)
    for f, c in ib:
        rep.bad(rule, f.qualname, "isinstance(value, type)",
                construct="isinstance-order:%s" % src(c)[:40],
                detail="the first argument names a type, the second does not",
                where=where(f, c.lineno))
    rep.check(not ib, rule, "chameleon.*", "%d isinstance / issubclass "
              "tests have the value first and the type second" % ni,
              construct="isinstance-order")


def int_guard_truth(test, var, value):
    """Truth value of a guard that compares one integer variable with
    constants (``index > 0``, ``index``, ``not index``, ``0 < index``,
    ``index != 0 and index < 9``) for ``var == value``; None if the guard is
    anything else.  This is arithmetic on a one-line condition, not
    execution of repository code."""
    def ev(e):
        if isinstance(e, ast.Constant) and isinstance(e.value, (int, bool)):
            return e.value
        if isinstance(e, ast.Name) and e.id == var:
            return value
        if isinstance(e, ast.UnaryOp) and isinstance(e.op, ast.Not):
            v = ev(e.operand)
            return None if v is None else (not v)
        if isinstance(e, ast.UnaryOp) and isinstance(e.op, ast.USub):
            v = ev(e.operand)
            return None if v is None else -v
        if isinstance(e, ast.BinOp) and isinstance(
                e.op, (ast.Add, ast.Sub)):
            a, b = ev(e.left), ev(e.right)
            if a is None or b is None:
                return None
            return a + b if isinstance(e.op, ast.Add) else a - b
        if isinstance(e, ast.BoolOp):
            vals = [ev(x) for x in e.values]
            if any(v is None for v in vals):
                return None
            return all(vals) if isinstance(e.op, ast.And) else any(vals)
        if isinstance(e, ast.Compare):
            left = ev(e.left)
            if left is None:
                return None
            res = True
            for op, c in zip(e.ops, e.comparators):
                right = ev(c)
                if right is None:
                    return None
                r = {ast.Gt: left > right, ast.GtE: left >= right,
                     ast.Lt: left < right, ast.LtE: left <= right,
                     ast.Eq: left == right, ast.NotEq: left != right}.get(
                         type(op))
                if r is None:
                    return None
                res = res and r
                left = right
            return res
        return None
    r = ev(test)
    return None if r is None else bool(r)


# ---------------------------------------------------------------------------
# shape obligations on a constant regular expression (syntax tree only)


def regex_shape(pattern, flags=0, searched_only=False):
    """Problems of a statement / declaration pattern that are visible in its
    syntax tree, per alternative (groups flattened):
    * 'ws-partial': a repeat over a class that contains the blank does not
      admit tab / newline / CR as well (at the two ends of a pattern that is
      only searched for this is immaterial);
    * 'lazy-ws': a lazy white-space repeat stands in front of a captured
      value that admits white space itself (the value would start with the
      blanks);
    * 'comma-space': white space behind a ',' is required.
    -> (problems [(kind, text)], counts {ws, lazy})"""
    from . import rx
    C = rx.C
    if isinstance(pattern, bytes):
        pattern = pattern.decode("latin-1")
    tree = list(rx.parse(pattern, flags))
    WS = rx.CharSet.of(" \t\n\r")
    bad = []
    counts = dict(ws=0, lazy=0)

    def alts(items):
        out = [[]]
        for op, av in items:
            if op is C.BRANCH:
                new = []
                for a in out:
                    for b in av[1]:
                        for sub in alts(list(b)):
                            new.append(a + sub)
                out = new
            elif op is C.SUBPATTERN:
                new = []
                for a in out:
                    for sub in alts(list(av[3])):
                        new.append(a + [("GROUP-OPEN", av[0])] + sub +
                                   [("GROUP-CLOSE", av[0])])
                out = new
            elif op in (C.MAX_REPEAT, C.MIN_REPEAT) and (len(
                    list(av[2])) > 1 or any(
                    x[0] in (C.SUBPATTERN, C.BRANCH) for x in av[2])):
                # a repeated group: its body once, marked optional
                new = []
                for a in out:
                    for sub in alts(list(av[2])):
                        new.append(a + [("REP-OPEN", av[0])] + sub +
                                   [("REP-CLOSE", av[0])])
                out = new
            else:
                out = [a + [(op, av)] for a in out]
        return out

    MARK = ("GROUP-OPEN", "GROUP-CLOSE", "REP-OPEN", "REP-CLOSE")

    def rep_of(it):
        op, av = it
        if op in (C.MAX_REPEAT, C.MIN_REPEAT):
            return av[0], av[1], op is C.MIN_REPEAT, rx.all_chars(
                list(av[2]))
        return None
    seen = set()
    for alt in alts(tree):
        for i, it in enumerate(alt):
            if it[0] in MARK:
                continue
            r = rep_of(it)
            if r is None:
                continue
            mn, mx, lazy, cs = r
            if not (" " in cs and "a" not in cs and "0" not in cs):
                continue
            key = (id(it[1]),)
            first_time = key not in seen
            seen.add(key)
            if first_time:
                counts["ws"] += 1
            before = [jt for jt in alt[:i] if jt[0] not in MARK]
            after = [jt for jt in alt[i + 1:] if jt[0] not in MARK]
            edge = searched_only and (not before or not after)
            # inside an optional group with nothing mandatory behind it, a
            # narrower class cannot reject anything: the group is skipped
            opt_depth = 0
            for jt in alt[:i]:
                if jt[0] == "REP-OPEN" and jt[1] == 0:
                    opt_depth += 1
                elif jt[0] == "REP-CLOSE" and jt[1] == 0:
                    opt_depth -= 1
            if opt_depth > 0:
                d_ = opt_depth
                tail_free = True
                for jt in alt[i + 1:]:
                    if jt[0] == "REP-OPEN" and jt[1] == 0:
                        d_ += 1
                    elif jt[0] == "REP-CLOSE" and jt[1] == 0:
                        d_ -= 1
                    elif jt[0] in MARK:
                        continue
                    elif d_ <= 0:
                        r3 = rep_of(jt)
                        if r3 is None or r3[0] > 0:
                            tail_free = False
                            break
                edge = edge or tail_free
            if not (WS <= cs) and not edge and first_time:
                bad.append(("ws-partial", "a white-space repeat admits "
                            "only %s" % (cs,)))
            if before and before[-1][0] is C.LITERAL and \
                    chr(before[-1][1]) == "," and mn > 0 and first_time:
                bad.append(("comma-space", "white space is required behind "
                            "a comma"))
            if lazy:
                if first_time:
                    counts["lazy"] += 1
                depth = 0
                for jt in alt[:i + 1]:
                    if jt[0] == "GROUP-OPEN" and jt[1] is not None:
                        depth += 1
                    elif jt[0] == "GROUP-CLOSE" and jt[1] is not None:
                        depth -= 1
                optional = 0
                for jt in alt[:i + 1]:
                    if jt[0] == "REP-OPEN" and jt[1] == 0:
                        optional += 1
                    elif jt[0] == "REP-CLOSE" and jt[1] == 0:
                        optional -= 1
                base_optional = optional
                for jt in alt[i + 1:]:
                    if jt[0] == "GROUP-OPEN":
                        depth += jt[1] is not None
                        continue
                    if jt[0] == "GROUP-CLOSE":
                        depth -= jt[1] is not None
                        continue
                    if jt[0] == "REP-OPEN":
                        if jt[1] == 0:
                            optional += 1
                        continue
                    if jt[0] == "REP-CLOSE":
                        if jt[1] == 0:
                            optional -= 1
                        continue
                    if jt[0] in (C.ASSERT, C.ASSERT_NOT, C.AT):
                        continue        # zero width
                    r2 = rep_of(jt)
                    cs2 = r2[3] if r2 is not None else rx.all_chars([jt])
                    if depth > 0 and any(ch in cs2 for ch in
                                         " \t\n\x0b\x0c\xa0\u3000"):
                        if first_time:
                            bad.append(("lazy-ws", "a lazy white-space "
                                        "repeat stands in front of a "
                                        "captured value that admits white "
                                        "space"))
                        break
                    if (r2 is None or r2[0] > 0) and \
                            optional <= base_optional:
                        # a mandatory item at the lazy repeat's own level
                        # (or further out) ends the scan
                        break
    return bad, counts


def group_width(pattern, flags, gid):
    """(min, max) number of characters group ``gid`` can match"""
    from . import rx
    if isinstance(pattern, bytes):
        pattern = pattern.decode("latin-1")
    loc = rx.locate_group(rx.parse(pattern, flags), gid)
    if loc is None:
        return None
    body = loc[0]
    try:
        return body.getwidth()
    except AttributeError:
        import re._parser as sp
        s = sp.SubPattern(sp.State(), list(body))
        return s.getwidth()


# ---------------------------------------------------------------------------
# G-NONEFLOW: the two None idioms keep their orientation


def noneflow_sites(repo, mods=None):
    """Conditional expressions and guarded calls that test a value against
    None:
    * default idiom  ``E if E is not None else D`` (D does not mention E):
      E is the result on the not-None side -- the inverted form yields None
      where a value was asked for;
    * pass-through idiom ``E if E is None else f(E)`` and
      ``if E is not None: f(E)``: f is applied on the not-None side only.
    -> (instances, [(Func, node, text)])"""
    n = 0
    bad = []
    for q, f in sorted(repo.funcs.items()):
        if mods is not None and f.module.name not in mods:
            continue
        for x in ast.walk(f.node):
            if isinstance(x, ast.IfExp) and isinstance(x.test, ast.Compare) \
                    and len(x.test.ops) == 1 and isinstance(
                        x.test.ops[0], (ast.Is, ast.IsNot)) and isinstance(
                            x.test.comparators[0], ast.Constant) and \
                    x.test.comparators[0].value is None:
                e = src(x.test.left)
                is_none_side = x.body if isinstance(x.test.ops[0], ast.Is) \
                    else x.orelse
                not_none_side = x.orelse if isinstance(
                    x.test.ops[0], ast.Is) else x.body
                sides = {"none": src(is_none_side),
                         "value": src(not_none_side)}
                if sides["value"] == e or sides["none"] == e:
                    other = sides["none"] if sides["value"] == e \
                        else sides["value"]
                    mentions = any(src(y) == e for y in ast.walk(
                        is_none_side if sides["value"] == e
                        else not_none_side))
                    n += 1
                    if not mentions and sides["none"] == e:
                        bad.append((f, x, "'%s' is the result when it is "
                                    "None, the default '%s' when it is not"
                                    % (e, other[:40])))
                    if mentions and sides["value"] == e and \
                            sides["none"] != e:
                        bad.append((f, x, "'%s' is transformed (%s) when it "
                                    "is None and passed through when it is "
                                    "not" % (e, other[:40])))
            elif isinstance(x, ast.Call) and x.args and isinstance(
                    x.args[0], (ast.Name, ast.Attribute)):
                e = src(x.args[0])
                for t, v in guards_of(x, f.node):
                    if not isinstance(t, ast.expr):
                        continue
                    pt, flip = _CanonIf._pos(t)
                    if isinstance(pt, ast.Compare) and len(pt.ops) == 1 and \
                            isinstance(pt.ops[0], ast.Is) and \
                            src(pt.left) == e and isinstance(
                                pt.comparators[0], ast.Constant) and \
                            pt.comparators[0].value is None:
                        # (the name may be bound anew inside the branch)
                        rebound = any(
                            isinstance(y, (ast.Name, ast.Attribute)) and
                            src(y) == e and
                            isinstance(y.ctx, ast.Store) and
                            y.lineno <= x.lineno and y.lineno >= t.lineno
                            for y in ast.walk(f.node))
                        if rebound:
                            continue
                        n += 1
                        holds_none = (v != flip)
                        if holds_none and src(x.func) not in (
                                "isinstance", "print", "repr", "str"):
                            bad.append((f, x, "%s(%s ...) is called only "
                                        "when '%s' is None" % (
                                            src(x.func)[:30], e, e)))
    return n, bad


def degenerate_and_sites(repo, mods=None):
    """``E and <constant that is false>`` used as a value: whatever E is, the
    result is false ('' / None / 0) -- the default idiom is ``E or ''``"""
    out = []
    n = 0
    for q, f in sorted(repo.funcs.items()):
        if mods is not None and f.module.name not in mods:
            continue
        for x in ast.walk(f.node):
            if isinstance(x, ast.BoolOp):
                n += 1
                if isinstance(x.op, ast.And) and isinstance(
                        x.values[-1], ast.Constant) and \
                        not x.values[-1].value:
                    out.append((f, x))
    return n, out


def noneflow_rule(repo, rep, rule=None, mods=None):
    rule = rule or "R%s.N" % rep.prop[1:]
    rep.rule(rule, "G-NONEFLOW: 'E if E is not None else default' and "
                   "'None passes, anything else is processed' keep their "
                   "orientation")
    n, bad = noneflow_sites(repo, mods)
    rep.count("none_idioms", n)
    for f, x, why in bad:
        rep.bad(rule, f.qualname, "a value tested against None is used on "
                "the side where it is not None", construct="noneflow:%s" %
                src(x)[:40], detail=why, where=where(f, x.lineno))
    rep.check(not bad, rule, "chameleon.*", "%d None idioms (defaults, "
              "pass-through of an absent child) oriented correctly" % n,
              construct="noneflow")
    nb, deg = degenerate_and_sites(repo, mods)
    for f, x in deg:
        rep.bad(rule, f.qualname, "a default is attached with 'or'",
                construct="and-false-constant:%s" % src(x)[:40],
                detail="'%s' is false whatever its first operand is"
                % src(x)[:60], where=where(f, x.lineno))
    rep.check(not deg, rule, "chameleon.*", "no 'E and <false constant>' "
              "among %d boolean operations (a default is E or constant)"
              % nb, construct="and-false-constant")


# ---------------------------------------------------------------------------
# G-INNERMOST: a compile-time stack is read at its top


def stack_attrs(ci):
    """attributes of a class used as a stack: self.X.append(..) and
    self.X.pop() both occur in its methods"""
    app, pop = set(), set()
    for m in ci.methods.values():
        for n in ast.walk(m.node):
            if isinstance(n, ast.Call) and isinstance(n.func, ast.Attribute) \
                    and isinstance(n.func.value, ast.Attribute) and \
                    src(n.func.value.value) == "self":
                if n.func.attr == "append":
                    app.add(n.func.value.attr)
                elif n.func.attr == "pop" and not n.args:
                    pop.add(n.func.value.attr)
    return app & pop


def innermost_rule(repo, rep, rule, class_qualnames, only=None):
    """every constant subscript of a stack attribute is [-1]: the current
    element, translation, scope ... is the innermost open one"""
    n = 0
    off = []
    for cq in class_qualnames:
        ci = repo.cls(cq)
        stacks = stack_attrs(ci)
        if only is not None:
            stacks &= set(only)
        for m in ci.methods.values():
            for x in ast.walk(m.node):
                if isinstance(x, ast.Subscript) and isinstance(
                        x.value, ast.Attribute) and \
                        src(x.value.value) == "self" and \
                        x.value.attr in stacks and not isinstance(
                            x.slice, ast.Slice):
                    try:
                        k = ast.literal_eval(x.slice)
                    except ValueError:
                        continue
                    n += 1
                    if k != -1:
                        off.append("%s.%s: %s" % (ci.name, m.name, src(x)))
    rep.check(n >= 1 and not off, rule, ", ".join(
        c.split(".")[-1] for c in class_qualnames), "compile-time stacks "
        "are read at their top: the innermost open element / translation / "
        "scope (%d accesses)" % n, construct="innermost", detail="; ".join(off))
    return n


# ---------------------------------------------------------------------------
# G-DISCARDED: a generator function only makes its fragments when somebody
# iterates over the call; a call whose result is thrown away (an expression
# statement) emits nothing


def _is_generator(fnode):
    todo = list(fnode.body)
    while todo:
        n = todo.pop()
        if isinstance(n, (ast.Yield, ast.YieldFrom)):
            return True
        if isinstance(n, (ast.FunctionDef, ast.AsyncFunctionDef, ast.Lambda,
                          ast.ClassDef)):
            continue
        todo.extend(ast.iter_child_nodes(n))
    return False


def discarded_generator_calls(repo, class_qualname):
    """-> (number of calls of the class's generator methods through self,
    [(method, call)] whose value is discarded)"""
    ci = repo.cls(class_qualname)
    gens = set()
    for k in repo.mro(ci):
        for name, m in k.methods.items():
            if _is_generator(m.node):
                gens.add(name)
    n, lost = 0, []
    for m in ci.methods.values():
        for x in ast.walk(m.node):
            if isinstance(x, ast.Call) and isinstance(x.func, ast.Attribute) \
                    and src(x.func.value) == "self" and x.func.attr in gens:
                n += 1
                par = getattr(x, "_parent", None)
                if isinstance(par, ast.Expr):
                    lost.append((m, x))
    return n, lost, gens


def discarded_rule(repo, rep, rule, class_qualname, only=None):
    n, lost, gens = discarded_generator_calls(repo, class_qualname)
    if only is not None:
        lost = [(m, x) for m, x in lost if x.func.attr in only]
        if not set(only) <= gens:
            from .core import AnalysisError
            raise AnalysisError("generator methods %s of %s vanished" % (
                sorted(set(only) - gens), class_qualname))
    rep.check(n >= 1 and not lost, rule, class_qualname, "G-DISCARDED: no "
              "call of a fragment generator is thrown away un-iterated (it "
              "would emit nothing; %d calls of %d generator methods)" % (
                  n, len(gens)), construct="generator-consumed",
              where=where(lost[0][0], lost[0][1].lineno) if lost else "",
              detail="; ".join("%s: %s" % (m.name, src(x)) for m, x in lost))
    return n


# ---------------------------------------------------------------------------
# documented defaults of the template options (reference.rst / docstring of
# PageTemplate): an option nobody sets has to behave as documented


OPTION_DEFAULTS = {
    # option: (documented default, what depends on it)
    "implicit_i18n_translate": (False, "unmarked text is emitted as written, "
                                "not collapsed into message ids"),
    "trim_attribute_space": (False, "white space inside tags is kept"),
    "enable_data_attributes": (False, "data-tal-* attributes are ordinary "
                               "attributes unless the option is set"),
    "enable_comment_interpolation": (True, "${...} in comments is "
                                     "interpolated"),
    "restricted_namespace": (True, "an undeclared attribute prefix is an "
                             "error"),
    "mode": ("xml", "markup is parsed as markup"),
    "encoding": (None, "render() returns str"),
    "boolean_attributes": (None, "HTML defaults outside XML mode"),
}


def option_defaults_rule(repo, rep, rule, names):
    ci = repo.cls("chameleon.zpt.template.PageTemplate")
    for name in names:
        want, why = OPTION_DEFAULTS[name]
        node, owner = repo.class_attr(ci, name)
        have = "<missing>"
        ok = False
        if node is not None:
            try:
                have = ast.literal_eval(node)
                ok = have == want and type(have) is type(want)
            except ValueError:
                have = src(node)
        rep.check(ok, rule, ci.qualname + "." + name, "the documented "
                  "default of the option %s is %r (%s)" % (name, want, why),
                  construct="option-default:" + name,
                  detail="class attribute: %r" % (have,))
    option_forwarded_rule(repo, rep, rule, names)


# G-FIELDS: a node's settings reach the engine that compiles its expression


def engine_fields_rule(repo, rep, rule):
    """ExpressionTransform.visit_<Node>: every field of the node class that
    is also a setting of the expression engine (a parameter of
    ExpressionEngine.__init__) is handed on as <var>.<field>: to the engine
    factory or to the parse() call of the same method.  A setting left out
    silently falls back to the factory's preset, which differs from the
    node's value for some nodes (the default marker of plain text is None,
    the preset is the template's marker)."""
    ei = repo.func("chameleon.compiler.ExpressionEngine.__init__")
    settings = {a.arg for a in ei.node.args.args[2:]} | \
        {a.arg for a in ei.node.args.kwonlyargs}
    ci = repo.cls("chameleon.compiler.ExpressionTransform")
    nmod = repo.module("chameleon.nodes")
    n = 0
    for name, m in sorted(ci.methods.items()):
        if not name.startswith("visit_"):
            continue
        calls = [c for c in ast.walk(m.node) if isinstance(c, ast.Call)
                 and src(c.func) == "self.engine_factory"]
        if not calls:
            continue
        params = [a.arg for a in m.node.args.args]
        for c in calls:
            # the node the call is about: the method's node parameter, or a
            # local narrowed by isinstance() in an enclosing test
            var, cls_name = (params[1] if len(params) > 1 else None), \
                name[len("visit_"):]
            for t_, v_ in guards_of(c, m.node):
                if isinstance(t_, ast.Call) and src(t_.func) == "isinstance" \
                        and v_ and len(t_.args) == 2 and \
                        isinstance(t_.args[1], ast.Name):
                    var, cls_name = src(t_.args[0]), t_.args[1].id
            try:
                k = repo.cls("chameleon.nodes." + cls_name)
            except Exception:
                continue
            fields = None
            for b in repo.mro(k):
                if "_fields" in b.attrs:
                    try:
                        fields = repo.fold(b.attrs["_fields"], nmod)
                    except Exception:
                        fields = None
                    break
            if not fields:
                continue
            handed = {}
            for cc in [c] + [x for x in ast.walk(m.node)
                             if isinstance(x, ast.Call) and
                             isinstance(x.func, ast.Attribute) and
                             x.func.attr == "parse"]:
                for kw in cc.keywords:
                    if kw.arg:
                        handed.setdefault(kw.arg, src(kw.value))
            for m_, c_, fld in sorted(ENGINE_SETTINGS_ARMED):
                if (m_, c_) != (name, cls_name) or fld not in settings:
                    continue
                n += 1
                if fld not in fields:
                    # the node class no longer records the setting: there
                    # is nothing to hand on
                    continue
                rep.check(handed.get(fld) == "%s.%s" % (var, fld), rule,
                          m.qualname, "the %s of a %s node reaches the "
                          "engine that compiles its expression" % (
                              fld, cls_name),
                          construct="engine-setting:%s.%s" % (cls_name, fld),
                          where=where(m, c.lineno),
                          detail="handed on: %s" % handed.get(fld))
    if n < len(ENGINE_SETTINGS_ARMED):
        from .core import AnalysisError
        raise AnalysisError("engine settings: only %d of %d node fields "
                            "found" % (n, len(ENGINE_SETTINGS_ARMED)))
    return n


# (method, node class, field): the settings whose value on the node can
# differ from the factory's preset -- confirmed by reading the places that
# build the nodes; the other fields are handed on too, but leaving one out
# changes nothing today (the triage of the third sweep found those edits
# equivalent), so they are not armed
ENGINE_SETTINGS_ARMED = {
    # a plain value (tal:define, tal:condition, tal:repeat, the parts of a
    # string: expression) carries marker None: 'default' is no marker there
    ("visit_Value", "Value", "default_marker"),
    # text, comment and CDATA substitutions carry marker None, attribute
    # values the template's marker
    ("visit_Interpolation", "Substitution", "default_marker"),
    # what is escaped depends on where the value goes (text: &<>, attribute:
    # the quote too)
    ("visit_Interpolation", "Substitution", "char_escape"),
    ("visit_Substitution", "Substitution", "char_escape"),
    # the static value of the attribute is what 'default' stands for
    ("visit_Substitution", "Substitution", "default"),
    ("visit_Boolean", "Boolean", "default"),
}


# the statements of the three languages as docs/reference.rst describes
# them: a template using one of them is valid, the attribute validation
# (validate_attributes against <module>.WHITELIST) must let it through
DOCUMENTED_STATEMENTS = {
    "chameleon.tal": ("define", "condition", "repeat", "content", "replace",
                      "attributes", "on-error", "omit-tag", "switch",
                      "case"),
    "chameleon.metal": ("define-macro", "use-macro", "extend-macro",
                        "define-slot", "fill-slot"),
    "chameleon.i18n": ("translate", "domain", "context", "source", "target",
                       "name", "attributes", "data", "comment", "ignore",
                       "ignore-attributes"),
}


def whitelist_rule(repo, rep, rule, modules=None):
    import os
    import re as _re
    docs = {}
    ref = os.path.join(repo.root, "docs", "reference.rst")
    if os.path.exists(ref):
        for m_ in _re.finditer(r"(?m)^- ``(tal|metal|i18n):([a-z-]+)``\s*$",
                               open(ref, encoding="utf-8").read()):
            docs.setdefault("chameleon." + m_.group(1), set()).add(
                m_.group(2))
    for mn, names in sorted(DOCUMENTED_STATEMENTS.items()):
        if modules is not None and mn not in modules:
            continue
        try:
            wl = set(repo.const(mn, "WHITELIST"))
        except Exception:
            wl = None
        want = set(names) | docs.get(mn, set())
        rep.check(wl is not None and want <= wl, rule, mn + ".WHITELIST",
                  "every documented statement of the language is an allowed "
                  "attribute of its namespace (a template that uses it is "
                  "not rejected)", construct="whitelist-documented:" +
                  mn.rsplit(".", 1)[1],
                  detail="missing: %s" % sorted(want - (wl or set())))


def program_options(repo):
    """names the program (MacroProgram.__init__) takes out of its keyword
    arguments and stores on itself"""
    f = repo.func("chameleon.zpt.program.MacroProgram.__init__")
    out = []
    for c in ast.walk(f.node):
        if isinstance(c, ast.Call) and src(c.func) == "self._pop_defaults":
            out += [a.value for a in c.args[1:]
                    if isinstance(a, ast.Constant)]
    return out


def option_forwarded_rule(repo, rep, rule, names):
    """an option of the template that the program consumes reaches it: the
    template's parse() passes it by keyword, from the attribute (or from a
    local computed from the attribute)"""
    popts = program_options(repo)
    if not popts:
        from .core import AnalysisError
        raise AnalysisError("MacroProgram.__init__: _pop_defaults list "
                            "not found")
    pp = repo.func("chameleon.zpt.template.PageTemplate.parse")
    calls = [c for c in ast.walk(pp.node) if isinstance(c, ast.Call)
             and src(c.func) == "MacroProgram"]
    for name in names:
        if name not in popts:
            continue
        ok = bool(calls)
        shown = ""
        for c in calls:
            if any(k.arg is None for k in c.keywords):
                continue
            val = next((k.value for k in c.keywords if k.arg == name), None)
            shown = src(val) if val is not None else "<not passed>"
            if val is None:
                ok = False
                continue
            reads, seen, todo = set(), set(), [val]
            while todo:
                e = todo.pop()
                for x in ast.walk(e):
                    if isinstance(x, ast.Attribute):
                        reads.add(src(x))
                    if isinstance(x, ast.Name) and x.id not in seen:
                        seen.add(x.id)
                        todo += [a.value for a in ast.walk(pp.node)
                                 if isinstance(a, ast.Assign) and any(
                                     isinstance(t, ast.Name) and t.id == x.id
                                     for t in a.targets)]
            if "self.%s" % name not in reads:
                ok = False
        rep.check(ok, rule, pp.qualname, "the option %s set on the template "
                  "reaches the program that parses the document" % name,
                  construct="option-forwarded:" + name, where=where(pp),
                  detail=shown)
