"""E2/E5: syntactic path enumeration over statement lists.

Used both for ordinary functions of the repository (dominance / pairing /
must-pass-through rules) and for the *embedded fragments* of generated code
(``template("...")`` sources parsed with ``ast``).

A path is a list of events::

    ("assign", target_src, value_node, stmt)
    ("aug", target_src, op, value_node, stmt)
    ("expr", value_node, stmt)
    ("cond", test_node, True|False, stmt)   -- test in positive normal form
    ("sanitize", var, char_node, repl_node, extra_guard_node|None, stmt)
    ("try", stmt) / ("except", type_src, handler) / ("finally", stmt)
    ("loop", n_iterations, stmt)
    ("return", value_node|None, stmt) / ("raise", exc_node|None, stmt)
    ("end",)                       -- fell off the end

Loops are unrolled 0..``unroll`` times.  ``try`` bodies contribute the normal
path (body, orelse, finalbody) and, per handler, one exceptional path that
leaves the body *before its first statement completes* and one that leaves it
*after its last statement* (both prefixes are kept so that "X happened before
the exception" and "nothing happened" are both explored).
"""
from __future__ import annotations

import ast

from .core import AnalysisError, src


def _cond(test, value, st):
    """condition event in positive normal form: ``not c`` taken as True is
    ``c`` taken as False (also ``is not`` / ``!=`` / ``not in``), so a rule
    reads the same on a statement and on its branch-inverted twin"""
    flip = False
    t = test
    while True:
        if isinstance(t, ast.UnaryOp) and isinstance(t.op, ast.Not):
            t = t.operand
            flip = not flip
            continue
        if isinstance(t, ast.Compare) and len(t.ops) == 1 and \
                type(t.ops[0]) in (ast.IsNot, ast.NotEq, ast.NotIn):
            pos = {ast.IsNot: ast.Is, ast.NotEq: ast.Eq,
                   ast.NotIn: ast.In}[type(t.ops[0])]
            n = ast.Compare(t.left, [pos()], t.comparators)
            ast.copy_location(n, t)
            t = n
            flip = not flip
            continue
        break
    return ("cond", t, (not value) if flip else value, st)


class TooManyPaths(AnalysisError):
    pass


def _guarded_replace(st):
    """``if C in T [and ...]: T = T.replace(C, E)`` -> (T, C, E, extra)"""
    if not (isinstance(st, ast.If) and not st.orelse and len(st.body) == 1):
        return None
    body = st.body[0]
    if not (isinstance(body, ast.Assign) and len(body.targets) == 1 and
            isinstance(body.targets[0], ast.Name)):
        return None
    var = body.targets[0].id
    call = body.value
    if not (isinstance(call, ast.Call) and
            isinstance(call.func, ast.Attribute) and
            call.func.attr == "replace" and
            isinstance(call.func.value, ast.Name) and
            call.func.value.id == var and len(call.args) == 2):
        return None
    c, e = call.args
    tests = [st.test]
    if isinstance(st.test, ast.BoolOp) and isinstance(st.test.op, ast.And):
        tests = list(st.test.values)
    member = None
    extra = []
    for t in tests:
        if isinstance(t, ast.Compare) and len(t.ops) == 1 and \
                isinstance(t.ops[0], ast.In) and \
                isinstance(t.comparators[0], ast.Name) and \
                t.comparators[0].id == var and \
                ast.dump(t.left) == ast.dump(c):
            member = t
        else:
            extra.append(t)
    if member is None:
        return None
    return var, c, e, extra


def enum_paths(stmts, unroll=1, limit=20000, collapse_sanitizers=True):
    """Return the list of paths through ``stmts``."""
    out = []
    count = [0]

    def done(path, ev):
        count[0] += 1
        if count[0] > limit:
            raise TooManyPaths("more than %d paths" % limit)
        out.append(path + [ev])

    def go(stmts, path, k, loopk=None):
        # k: continuation taking a path (fall-through)
        if not stmts:
            return k(path)
        st, rest = stmts[0], stmts[1:]
        nxt = lambda p: go(rest, p, k, loopk)  # noqa: E731
        if isinstance(st, ast.Return):
            return done(path, ("return", st.value, st))
        if isinstance(st, ast.Raise):
            return done(path, ("raise", st.exc, st))
        if isinstance(st, ast.If):
            g = _guarded_replace(st) if collapse_sanitizers else None
            if g is not None:
                var, c, e, extra = g
                return nxt(path + [("sanitize", var, c, e, extra or None, st)])
            go(st.body, path + [_cond(st.test, True, st)], nxt, loopk)
            go(st.orelse, path + [_cond(st.test, False, st)], nxt, loopk)
            return
        if isinstance(st, ast.Assign):
            v = st.value
            if isinstance(v, ast.IfExp):
                for flag, val in ((True, v.body), (False, v.orelse)):
                    p = path + [_cond(v.test, flag, st)]
                    for t in st.targets:
                        p = p + [("assign", src(t), val, st)]
                    nxt(p)
                return
            p = path
            for t in st.targets:
                p = p + [("assign", src(t), v, st)]
            return nxt(p)
        if isinstance(st, ast.AnnAssign):
            if st.value is None:
                return nxt(path)
            return nxt(path + [("assign", src(st.target), st.value, st)])
        if isinstance(st, ast.AugAssign):
            return nxt(path + [("aug", src(st.target),
                                type(st.op).__name__, st.value, st)])
        if isinstance(st, ast.Expr):
            return nxt(path + [("expr", st.value, st)])
        if isinstance(st, (ast.Pass, ast.Global, ast.Nonlocal, ast.Import,
                           ast.ImportFrom)):
            return nxt(path)
        if isinstance(st, ast.Assert):
            return nxt(path + [("assert", st.test, st)])
        if isinstance(st, ast.Delete):
            return nxt(path + [("delete", st.targets, st)])
        if isinstance(st, (ast.FunctionDef, ast.ClassDef)):
            return nxt(path + [("def", st.name, st)])
        if isinstance(st, (ast.For, ast.While)):
            def after(p):
                return go(st.orelse, p, nxt, loopk)

            def iterate(p, n):
                # zero more iterations
                after(p + [("loop", n, st)])
                if n >= unroll:
                    return
                p2 = p
                if isinstance(st, ast.For):
                    p2 = p + [("assign", src(st.target),
                               ast.Call(func=ast.Name("<next>", ast.Load()),
                                        args=[st.iter], keywords=[]), st)]
                else:
                    p2 = p + [_cond(st.test, True, st)]
                go(st.body, p2, lambda q: iterate(q, n + 1),
                   (lambda q: iterate(q, n + 1), nxt))
            return iterate(path, 0)
        if isinstance(st, ast.Continue):
            if loopk is None:
                raise AnalysisError("continue outside loop")
            return loopk[0](path)
        if isinstance(st, ast.Break):
            if loopk is None:
                raise AnalysisError("break outside loop")
            return loopk[1](path)
        if isinstance(st, ast.With):
            return go(st.body, path + [("with", st.items, st)], nxt, loopk)
        if isinstance(st, ast.Try):
            def fin(p, then):
                if st.finalbody:
                    return go(st.finalbody, p + [("finally", st)], then, loopk)
                return then(p)
            # normal path
            go(st.body, path + [("try", st)],
               lambda p: go(st.orelse, p, lambda q: fin(q, nxt), loopk),
               loopk)
            # exceptional paths
            if st.handlers:
                prefixes = [path + [("try", st)]]
                # also: exception after the whole body ran
                go(st.body, path + [("try", st)],
                   lambda p: prefixes.append(p), loopk)
                seen = set()
                for pre in prefixes:
                    key = len(pre)
                    for h in st.handlers:
                        tsrc = src(h.type) if h.type is not None else "<bare>"
                        if (key, id(h)) in seen:
                            continue
                        seen.add((key, id(h)))
                        go(h.body, pre + [("except", tsrc, h)],
                           lambda q: fin(q, nxt), loopk)
            elif st.finalbody:
                # try/finally: the exceptional exit runs finalbody, then
                # propagates
                go(st.finalbody, path + [("try", st), ("exception", st),
                                         ("finally", st)],
                   lambda p: done(p, ("raise", None, st)), loopk)
            return
        if isinstance(st, ast.Match):
            raise AnalysisError("match statement not modelled")
        return nxt(path + [("other", st)])

    # a statement list that is itself a loop body: 'continue' / 'break' at
    # its top level end the path through the body
    go(list(stmts), [], lambda p: done(p, ("end",)),
       (lambda p: done(p, ("continue",)), lambda p: done(p, ("break",))))
    return out


def calls_on_path(path):
    """Yield (call_node, event_index) for every call expression evaluated on
    the path, in (approximate) evaluation order."""
    for i, ev in enumerate(path):
        nodes = []
        if ev[0] in ("assign",):
            nodes = [ev[2]]
        elif ev[0] == "aug":
            nodes = [ev[3]]
        elif ev[0] in ("expr", "cond", "assert"):
            nodes = [ev[1]]
        elif ev[0] in ("return", "raise") and ev[1] is not None:
            nodes = [ev[1]]
        elif ev[0] == "with":
            nodes = [it.context_expr for it in ev[1]]
        for n in nodes:
            if n is None:
                continue
            for c in ast.walk(n):
                if isinstance(c, ast.Call):
                    yield c, i


def path_text(path, limit=12):
    out = []
    for ev in path[:limit]:
        if ev[0] == "cond":
            out.append("%s(%s)" % ("if" if ev[2] else "ifnot", src(ev[1], 50)))
        elif ev[0] == "assign":
            out.append("%s=%s" % (ev[1], src(ev[2], 40)))
        elif ev[0] == "sanitize":
            out.append("sanitize(%s)" % src(ev[2]))
        elif ev[0] in ("return", "raise"):
            out.append("%s %s" % (ev[0], src(ev[1], 40) if ev[1] is not None
                                  else ""))
        elif ev[0] == "except":
            out.append("except %s" % ev[1])
        elif ev[0] == "expr":
            out.append(src(ev[1], 40))
        else:
            out.append(ev[0])
    if len(path) > limit:
        out.append("...")
    return " ; ".join(out)
