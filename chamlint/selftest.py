"""Thorough tier: the rules are tested both ways on scratch copies of /repo.

* mutants: one seeded defect each (release deleted, wrapper pair swapped,
  escape dropped ...) on which the property's rules MUST fire;
* refactors: behaviour-preserving edits on which they MUST stay silent --
  hand-written ones and the whole-package rewrites of chamlint.refactors
  (re-formatting, renaming of locals, inverted if/else, extracted return
  values, no-op statements, swapped independent assignments).

Scratch copies live under $TMPDIR, outside /repo and /verif, and are removed
immediately.  Nothing of the scratch copy is executed either -- the same
static rules are run with ``Repo(root=scratch)``.  Results are reported in
the evidence file and never change the exit code of the check (a patch that
no longer applies to an edited tree is 'skipped').
"""
from __future__ import annotations

import importlib
import os
import shutil
import tempfile
from concurrent.futures import ProcessPoolExecutor

from .core import REPO, AnalysisError, Report, Repo, finding_key, load_known
from .mutants import MUTANTS


def _seeded_variants(prop):
    """Independently produced breaking changes stored under /verif/seeded."""
    import json
    from .core import VERIF
    out = []
    root = os.path.join(VERIF, "seeded")
    if not os.path.isdir(root):
        return out
    for d in sorted(os.listdir(root)):
        if not d.startswith(prop + "-"):
            continue
        patch = os.path.join(root, d, "patch.diff")
        meta = os.path.join(root, d, "meta.json")
        if not os.path.exists(patch):
            continue
        expect = "fire"
        try:
            with open(meta) as f:
                mj = json.load(f)
            if mj.get("outside_decided_clauses"):
                expect = "undecided"
        except Exception:
            pass
        out.append(dict(id="seeded:" + d, patchfile=patch, expect=expect))
    return out


def _run_patchfile(prop, m):
    import subprocess
    tmp = tempfile.mkdtemp(prefix="chamlint-")
    try:
        shutil.copytree(os.path.join(REPO, "src"), os.path.join(tmp, "src"),
                        ignore=shutil.ignore_patterns(
                            "tests", "__pycache__", "*.pyc"))
        r = subprocess.run(["git", "apply", "--include=*src/chameleon/*", "--unsafe-paths", "--directory",
                            tmp, m["patchfile"]], capture_output=True,
                           text=True, cwd=tmp)
        if r.returncode != 0:
            return m["id"], "skipped", "patch does not apply"
        from . import lib
        lib._CACHE.clear()
        mod = importlib.import_module("chamlint.rules.%s" % prop.lower())
        rep = Report(prop, "selftest")
        try:
            mod.run(Repo(tmp), rep, "quick")
        except AnalysisError as exc:
            return m["id"], "analysis-error", str(exc)[:200]
        except Exception as exc:  # noqa
            return m["id"], "analysis-error", "%s: %s" % (
                type(exc).__name__, str(exc)[:200])
        known = load_known()
        viol = [o for o in rep.obligations if o["status"] == "VIOLATED"
                and finding_key(prop, o) not in known]
        if viol:
            return m["id"], "fired", ",".join(sorted(
                {o["rule"] for o in viol})) + ": " + \
                viol[0]["obligation"][:120]
        return m["id"], "silent", ""
    finally:
        shutil.rmtree(tmp, ignore_errors=True)


def _run_refactor(prop, m):
    """whole-package behaviour-preserving rewrite (chamlint.refactors)"""
    from . import refactors
    tmp = tempfile.mkdtemp(prefix="chamlint-")
    try:
        shutil.copytree(os.path.join(REPO, "src"), os.path.join(tmp, "src"),
                        ignore=shutil.ignore_patterns(
                            "tests", "__pycache__", "*.pyc"))
        try:
            refactors.rewrite(m["mode"], tmp)
        except SyntaxError as exc:
            return m["id"], "skipped", "source does not parse: %s" % exc
        from . import lib
        lib._CACHE.clear()
        mod = importlib.import_module("chamlint.rules.%s" % prop.lower())
        rep = Report(prop, "selftest")
        try:
            mod.run(Repo(tmp), rep, "quick")
        except AnalysisError as exc:
            return m["id"], "analysis-error", str(exc)[:200]
        except Exception as exc:  # noqa
            return m["id"], "analysis-error", "%s: %s" % (
                type(exc).__name__, str(exc)[:200])
        known = load_known()
        viol = [o for o in rep.obligations if o["status"] == "VIOLATED"
                and finding_key(prop, o) not in known]
        if viol:
            return m["id"], "fired", "; ".join(
                "%s[%s]" % (o["rule"], o.get("construct")) for o in viol[:4])
        return m["id"], "silent", ""
    finally:
        shutil.rmtree(tmp, ignore_errors=True)


def _run_one(args):
    prop, m = args
    if "mode" in m:
        return _run_refactor(prop, m)
    if "patchfile" in m:
        return _run_patchfile(prop, m)
    src_root = os.path.join(REPO, "src", "chameleon")
    path = os.path.join(src_root, m["file"])
    try:
        with open(path, encoding="utf-8") as f:
            text = f.read()
    except OSError:
        return m["id"], "skipped", "file missing"
    if text.count(m["old"]) != 1:
        return m["id"], "skipped", "patch does not apply (%d matches)" % \
            text.count(m["old"])
    tmp = tempfile.mkdtemp(prefix="chamlint-")
    try:
        dst = os.path.join(tmp, "src", "chameleon")
        shutil.copytree(src_root, dst, ignore=shutil.ignore_patterns(
            "tests", "__pycache__", "*.pyc"))
        with open(os.path.join(dst, m["file"]), "w", encoding="utf-8") as f:
            f.write(text.replace(m["old"], m["new"]))
        try:
            import ast
            ast.parse(text.replace(m["old"], m["new"]))
        except SyntaxError as exc:
            return m["id"], "broken-mutant", str(exc)
        from . import lib
        lib._CACHE.clear()
        mod = importlib.import_module("chamlint.rules.%s" % prop.lower())
        rep = Report(prop, "selftest")
        try:
            mod.run(Repo(tmp), rep, "quick")
        except AnalysisError as exc:
            return m["id"], "analysis-error", str(exc)[:200]
        except Exception as exc:  # noqa
            return m["id"], "analysis-error", "%s: %s" % (
                type(exc).__name__, str(exc)[:200])
        known = load_known()
        viol = [o for o in rep.obligations if o["status"] == "VIOLATED"
                and finding_key(prop, o) not in known]
        if viol:
            rules = sorted({o["rule"] for o in viol})
            return m["id"], "fired", ",".join(rules) + ": " + \
                viol[0]["obligation"][:120]
        return m["id"], "silent", ""
    finally:
        shutil.rmtree(tmp, ignore_errors=True)


def run(prop, rep, jobs=16):
    from .refactors import MODES
    muts = list(MUTANTS.get(prop, [])) + _seeded_variants(prop) + [
        dict(id="refactor:" + mode, mode=mode, expect="silent")
        for mode in MODES]
    if not muts:
        rep.selftest = dict(mutants=0, note="no seeded variants registered")
        return
    with ProcessPoolExecutor(max_workers=min(jobs, len(muts))) as ex:
        results = list(ex.map(_run_one, [(prop, m) for m in muts]))
    byid = {m["id"]: m for m in muts}
    summary = dict(mutants=0, killed=0, missed=[], refactors=0, silent=0,
                   false_alarms=[], skipped=[], analysis_errors=[],
                   details=[])
    for mid, status, info in results:
        m = byid[mid]
        kind = m.get("expect", "fire")
        summary["details"].append(dict(id=mid, expect=kind, status=status,
                                       info=info))
        if status == "skipped" or status == "broken-mutant":
            summary["skipped"].append(mid)
            continue
        if kind == "undecided":
            summary.setdefault("undecided_seeded", []).append(
                dict(id=mid, status=status))
            continue
        if kind == "fire":
            summary["mutants"] += 1
            if status == "fired":
                summary["killed"] += 1
            elif status == "analysis-error":
                summary["analysis_errors"].append(mid)
            else:
                summary["missed"].append(mid)
        else:
            summary["refactors"] += 1
            if status == "silent":
                summary["silent"] += 1
            elif status == "analysis-error":
                summary["analysis_errors"].append(mid)
            else:
                summary["false_alarms"].append(mid)
    rep.selftest = summary
    print("  selftest: %d/%d seeded defects detected, %d/%d refactorings "
          "silent, %d skipped, %d analysis-error" % (
              summary["killed"], summary["mutants"], summary["silent"],
              summary["refactors"], len(summary["skipped"]),
              len(summary["analysis_errors"])))
    for mid in summary["missed"]:
        print("  selftest MISSED mutant %s" % mid)
    for mid in summary["false_alarms"]:
        print("  selftest FALSE ALARM on refactoring %s" % mid)
