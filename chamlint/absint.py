"""E3/E4: abstract interpretation of code-emitting and node-building functions.

The emitter (``Compiler.visit_*`` and friends) builds lists of Python
statements from ``template("...")`` fragments, explicit ``ast.X(...)``
constructions, recursive ``self.visit(child)`` calls and expression
evaluations ``self._engine(expr, target)``.  ``MacroProgram.visit_element``
builds a tree of ``nodes.K(...)`` objects.  This interpreter evaluates such
functions *symbolically* over their syntax trees (nothing is executed) and
returns

* the **value** the function returns / yields: an *emission tree* made of
  ``Frag`` (a fragment of generated code, parsed), ``Child`` (output of a
  sub-node), ``Eval`` (evaluation of a user expression into a target),
  ``Py`` (explicit ast construction), ``NodeV`` (node construction),
  ``Alt`` (compile-time alternative), ``Loop`` (compile-time loop) ...
* the **trace**: the order in which child visits, expression evaluations and
  side effects on ``self.*`` happen at compile time.

Anything not understood becomes ``Opaque``/``Sym``; rules that need a
window containing an ``Opaque`` refuse to decide (ANALYSIS-ERROR).
"""
from __future__ import annotations

import ast
import textwrap

from .core import AnalysisError, NotConst, clone_ast, src

# ---------------------------------------------------------------------------
# abstract values


class V:
    fields = ()

    def kids(self):
        for f in self.fields:
            v = getattr(self, f)
            if isinstance(v, V):
                yield f, v
            elif isinstance(v, (list, tuple)):
                for i, x in enumerate(v):
                    if isinstance(x, V):
                        yield "%s[%d]" % (f, i), x
            elif isinstance(v, dict):
                for k, x in v.items():
                    if isinstance(x, V):
                        yield "%s.%s" % (f, k), x

    def __repr__(self):
        return show(self)


class Const(V):
    def __init__(self, value):
        self.value = value


class Sym(V):
    """Symbolic expression kept as source text."""

    def __init__(self, text, node=None):
        self.text = text
        self.node = node


class Opaque(V):
    def __init__(self, text, lineno=0):
        self.text = text
        self.lineno = lineno


class Param(V):
    def __init__(self, name):
        self.name = name


class SelfV(V):
    pass


class Field(V):
    fields = ("base",)

    def __init__(self, base, attr):
        self.base = base
        self.attr = attr


class LoopVar(V):
    """A compile-time loop variable.  ``canon`` names it by what it ranges
    over (``each(node.assignments)``), so that renaming the variable or
    iterating the same collection twice gives the same text."""
    fields = ("iter",)

    def __init__(self, name, it, path=""):
        self.name = name
        self.iter = it
        self.path = path

    @property
    def canon(self):
        it = self.iter
        while isinstance(it, Rev):
            it = it.arg
        return "each(%s)%s" % (show(it, 0, 12), self.path)


class Tup(V):
    fields = ("items",)

    def __init__(self, items):
        self.items = tuple(items)


class DictV(V):
    fields = ("values",)

    def __init__(self, keys, values):
        self.keys = keys
        self.values = values


class OneOf(V):
    fields = ("options",)

    def __init__(self, options, key):
        self.options = options
        self.key = key


class Ident(V):
    """A generated identifier ``__<prefix>_<suffix>``."""
    fields = ("prefix", "suffix")

    def __init__(self, prefix, suffix, via, lineno=0):
        self.prefix = prefix      # V (Const or Fmt)
        self.suffix = suffix      # V or None
        self.via = via            # 'identifier' | 'format'
        self.lineno = lineno


class Fmt(V):
    fields = ("args",)

    def __init__(self, fmt, args):
        self.fmt = fmt
        self.args = tuple(args)


class IdOf(V):
    fields = ("arg",)

    def __init__(self, arg):
        self.arg = arg


class NameRef(V):
    fields = ("ident",)

    def __init__(self, ident, ctx):
        self.ident = ident
        self.ctx = ctx


class Frag(V):
    """template("src", SLOT=value...) -- a parsed fragment of generated code."""
    fields = ("slots",)

    def __init__(self, source, mode, slots, lineno, factory=None,
                 opaque=False):
        self.source = source
        self.mode = mode
        self.slots = slots
        self.lineno = lineno
        self.factory = factory
        self.opaque = opaque
        self.tree = None
        if source is not None:
            try:
                self.tree = ast.parse(textwrap.dedent(source),
                                      mode="eval" if mode == "eval" else "exec")
            except SyntaxError:
                self.opaque = True


class Child(V):
    fields = ("arg",)

    def __init__(self, arg, lineno=0):
        self.arg = arg
        self.lineno = lineno
        self.obj = None


class Eval(V):
    fields = ("expr", "target")

    def __init__(self, expr, target, lineno=0, via="_engine"):
        self.expr = expr
        self.target = target
        self.lineno = lineno
        self.via = via


class Py(V):
    fields = ("f",)

    def __init__(self, kind, f, lineno=0):
        self.kind = kind
        self.f = f
        self.lineno = lineno


class Internal(V):
    fields = ("args",)

    def __init__(self, kind, args, lineno=0):
        self.kind = kind
        self.args = tuple(args)
        self.lineno = lineno


class NodeV(V):
    fields = ("args", "kwargs")

    def __init__(self, kind, args, kwargs=None, lineno=0):
        self.kind = kind
        self.args = tuple(args)
        self.kwargs = kwargs or {}
        self.lineno = lineno

    def arg(self, name, fieldnames):
        if name in self.kwargs:
            return self.kwargs[name]
        if name in fieldnames:
            i = fieldnames.index(name)
            if i < len(self.args):
                return self.args[i]
        return None


class ClsRef(V):
    def __init__(self, space, name):
        self.space = space   # 'nodes' | 'ast' | 'internal' | 'exc' | 'other'
        self.name = name


class FuncRef(V):
    def __init__(self, func):
        self.func = func


class Instance(V):
    def __init__(self, cls, text):
        self.cls = cls
        self.text = text


class Partial(V):
    fields = ("func", "args")

    def __init__(self, func, args, kwargs=None):
        self.func = func
        self.args = tuple(args)
        self.kwargs = kwargs or {}


class Closure(V):
    def __init__(self, node, env, interp_module):
        self.node = node
        self.env = env
        self.module = interp_module


class Seq(V):
    fields = ("items",)

    def __init__(self, items=()):
        self.items = tuple(items)


class Gen(V):
    """A generator object (not yet consumed)."""
    fields = ("seq",)

    def __init__(self, seq, call_text, trace):
        self.seq = seq
        self.call_text = call_text
        self.trace = trace


class CellRef(V):
    def __init__(self, n):
        self.n = n


_CT = {}


def canon_test(text):
    """Positive normal form of a test: leading ``not`` stripped, ``is not``
    / ``!=`` / ``not in`` turned into ``is`` / ``==`` / ``in``.  -> (text,
    flipped).  ``if not c: B else: A`` and ``if c: A else: B`` thus give the
    same Alt."""
    if text in _CT:
        return _CT[text]
    out = (text, False)
    try:
        n = ast.parse(text, mode="eval").body
        flip = False
        before = ast.unparse(n)
        from .alpha import order_compares
        n = order_compares(n)
        changed = ast.unparse(n) != before
        while True:
            if isinstance(n, ast.UnaryOp) and isinstance(n.op, ast.Not):
                n = n.operand
                flip = not flip
                changed = True
                continue
            if isinstance(n, ast.Compare) and len(n.ops) == 1 and \
                    type(n.ops[0]) in (ast.IsNot, ast.NotEq, ast.NotIn):
                pos = {ast.IsNot: ast.Is, ast.NotEq: ast.Eq,
                       ast.NotIn: ast.In}[type(n.ops[0])]
                n = ast.Compare(n.left, [pos()], n.comparators)
                flip = not flip
                changed = True
                continue
            break
        if changed:
            out = (ast.unparse(n), flip)
    except (SyntaxError, ValueError):
        pass
    _CT[text] = out
    return out


class Alt(V):
    fields = ("a", "b")

    def __init__(self, test, a, b, lineno=0):
        test, flip = canon_test(test)
        if flip:
            a, b = b, a
        self.test = test
        self.a = a
        self.b = b
        self.lineno = lineno


class Loop(V):
    fields = ("iter", "body")

    def __init__(self, var, it, body, rev=False, lineno=0):
        self.var = var
        self.iter = it
        self.body = body
        self.rev = rev
        self.lineno = lineno


class Rev(V):
    fields = ("arg",)

    def __init__(self, arg):
        self.arg = arg


class CallV(V):
    fields = ("func", "args", "kwargs")

    def __init__(self, name, func, args, kwargs=None, lineno=0):
        self.name = name
        self.func = func
        self.args = tuple(args)
        self.kwargs = kwargs or {}
        self.lineno = lineno


class Effect(V):
    fields = ("arg",)

    def __init__(self, kind, target, arg=None, lineno=0):
        self.kind = kind      # push/pop/add/set/setitem/del/discarded-generator
        self.target = target  # e.g. 'self._scopes'
        self.arg = arg
        self.lineno = lineno


class Raise(V):
    fields = ("exc",)

    def __init__(self, exc, lineno=0):
        self.exc = exc
        self.lineno = lineno


class Guard(V):
    """An ``assert`` or a raising ``if`` at compile time."""

    def __init__(self, text, lineno=0):
        self.text = text
        self.lineno = lineno


UNDEF = Const("<undefined>")


def show(v, depth=0, limit=4):
    if depth > limit:
        return "..."
    s = lambda x: show(x, depth + 1, limit)  # noqa: E731
    if isinstance(v, Const):
        return repr(v.value)
    if isinstance(v, Sym):
        return "`%s`" % v.text
    if isinstance(v, Opaque):
        return "Opaque(%s)" % v.text
    if isinstance(v, Param):
        return v.name
    if isinstance(v, SelfV):
        return "self"
    if isinstance(v, Field):
        return "%s.%s" % (s(v.base), v.attr)
    if isinstance(v, LoopVar):
        return v.canon
    if isinstance(v, Tup):
        return "(%s)" % ", ".join(map(s, v.items))
    if isinstance(v, DictV):
        return "{%s}" % ", ".join("%s: %s" % (s(k), s(x))
                                  for k, x in zip(v.keys, v.values))
    if isinstance(v, OneOf):
        return "oneof(%s)" % ", ".join(map(s, v.options))
    if isinstance(v, Ident):
        return "Ident(%s, %s)" % (s(v.prefix),
                                  s(v.suffix) if v.suffix is not None else None)
    if isinstance(v, Fmt):
        return "fmt(%r %% %s)" % (v.fmt, ", ".join(map(s, v.args)))
    if isinstance(v, IdOf):
        return "id(%s)" % s(v.arg)
    if isinstance(v, NameRef):
        return "%s(%s)" % (v.ctx, s(v.ident))
    if isinstance(v, Frag):
        t = " ".join((v.source or "<opaque>").split())
        return "Frag(%r%s)" % (t[:70], "".join(
            ", %s=%s" % (k, s(x)) for k, x in v.slots.items()))
    if isinstance(v, Child):
        return "Child(%s)" % s(v.arg)
    if isinstance(v, Eval):
        return "Eval(%s -> %s)" % (s(v.expr), s(v.target))
    if isinstance(v, Py):
        return "Py.%s(%s)" % (v.kind, ", ".join(
            "%s=%s" % (k, s(x)) for k, x in v.f.items()))
    if isinstance(v, Internal):
        return "%s(%s)" % (v.kind, ", ".join(map(s, v.args)))
    if isinstance(v, NodeV):
        return "nodes.%s(%s)" % (v.kind, ", ".join(
            list(map(s, v.args)) +
            ["%s=%s" % (k, s(x)) for k, x in v.kwargs.items()]))
    if isinstance(v, ClsRef):
        return "%s.%s" % (v.space, v.name)
    if isinstance(v, FuncRef):
        return "<func %s>" % v.func.qualname
    if isinstance(v, Instance):
        return "<%s instance %s>" % (v.cls.name, v.text)
    if isinstance(v, Partial):
        return "partial(%s)" % ", ".join(map(s, (v.func,) + v.args))
    if isinstance(v, Closure):
        return "<closure %s>" % getattr(v.node, "name", "lambda")
    if isinstance(v, Seq):
        return "[%s]" % "; ".join(map(s, v.items))
    if isinstance(v, Gen):
        return "gen%s" % s(v.seq)
    if isinstance(v, CellRef):
        return "cell#%d" % v.n
    if isinstance(v, Alt):
        return "Alt<%s>(%s | %s)" % (v.test, s(v.a), s(v.b))
    if isinstance(v, Loop):
        return "Loop<%s in %s%s>(%s)" % (v.var, "reversed " if v.rev else "",
                                         s(v.iter), s(v.body))
    if isinstance(v, Rev):
        return "reversed(%s)" % s(v.arg)
    if isinstance(v, CallV):
        recv = ""
        if isinstance(v.func, V) and not isinstance(
                v.func, (FuncRef, ClsRef, Sym, Const, Instance, Partial)):
            recv = s(v.func) + "."
        return "%s%s(%s)" % (recv, v.name, ", ".join(
            list(map(s, v.args)) +
            ["%s=%s" % (k, s(x)) for k, x in v.kwargs.items()]))
    if isinstance(v, Effect):
        return "Effect(%s %s%s)" % (v.kind, v.target,
                                    " " + s(v.arg) if v.arg is not None else "")
    if isinstance(v, Raise):
        return "Raise(%s)" % s(v.exc)
    if isinstance(v, Guard):
        return "Guard(%s)" % v.text
    return "<%s>" % type(v).__name__


def walk(v, _seen=None):
    """Pre-order walk over an abstract value (DAG-safe)."""
    if _seen is None:
        _seen = set()
    if id(v) in _seen:
        return
    _seen.add(id(v))
    yield v
    for _, k in v.kids():
        yield from walk(k, _seen)


def items_of(v):
    """View a list-valued abstract value as a tuple of items/segments."""
    if isinstance(v, Seq):
        return v.items
    if isinstance(v, Gen):
        return v.seq.items
    if isinstance(v, Tup):
        return v.items
    if isinstance(v, Const) and v.value in ((), None, ""):
        return ()
    return (v,)


def concat(a, b):
    return Seq(items_of(a) + items_of(b))


# ---------------------------------------------------------------------------

AST_FIELDS = {name: getattr(ast, name)._fields
              for name in dir(ast)
              if isinstance(getattr(ast, name), type)
              and issubclass(getattr(ast, name), ast.AST)}

INTERNAL_NODES = {"EmitText", "TokenRef", "Comment", "TranslationContext",
                  "Static", "Symbol", "Builtin"}

INLINE_MODULES = ("chameleon.compiler", "chameleon.astutil",
                  "chameleon.zpt.program")
NO_INLINE = {"mangle", "identifier", "template", "parse", "indent"}


import itertools as _it
_CELLS = _it.count(1)


class Result:
    def __init__(self, value, trace, out, is_gen, env, interp):
        self.value = value
        self.trace = trace
        self.out = out
        self.is_gen = is_gen
        self.env = env
        self.interp = interp

    @property
    def emission(self):
        return self.out if self.is_gen else self.value


class Interp:
    def __init__(self, repo, max_depth=4):
        self.repo = repo
        self.max_depth = max_depth
        self.ncell = 0
        self.node_classes = {c.name for c in repo.classes.values()
                             if c.module.name == "chameleon.nodes"}
        self.exc_classes = {c.name for c in repo.classes.values()
                            if c.module.name == "chameleon.exc"}
        self._factories = {}

    # -- public -----------------------------------------------------------
    def run(self, func, args=None, stack=()):
        node = func.node
        env = {"<trace>": Seq(), "<out>": Seq(), "<module>": func.module,
               "<cls>": func.cls, "<func>": func}
        params = [a.arg for a in node.args.posonlyargs + node.args.args]
        defaults = node.args.defaults
        args = dict(args or {})
        for i, p in enumerate(params):
            if p == "self" and i == 0 and func.cls is not None:
                env[p] = SelfV()
            elif p in args:
                env[p] = args[p]
            else:
                di = i - (len(params) - len(defaults))
                env[p] = Param(p)
                if di >= 0 and p not in args:
                    env["<default:%s>" % p] = defaults[di]
        if node.args.vararg:
            env[node.args.vararg.arg] = args.get(
                node.args.vararg.arg, Param("*" + node.args.vararg.arg))
        for a in node.args.kwonlyargs:
            env[a.arg] = args.get(a.arg, Param(a.arg))
        is_gen = any(isinstance(n, (ast.Yield, ast.YieldFrom))
                     for n in self._own_nodes(node))
        stack = stack + (func.qualname,)
        kind, value, env = self.block(node.body, env, stack)
        if kind in ("fall",):
            value = Const(None)
        value = self.deref(value, env)
        out = self.deref(env["<out>"], env)
        trace = self.deref(env["<trace>"], env)
        return Result(value, trace, out, is_gen, env, self)

    @staticmethod
    def _own_nodes(fnode):
        todo = list(fnode.body)
        while todo:
            n = todo.pop()
            yield n
            for c in ast.iter_child_nodes(n):
                if not isinstance(c, (ast.FunctionDef, ast.Lambda,
                                      ast.ClassDef)):
                    todo.append(c)

    # -- cells ------------------------------------------------------------
    def new_cell(self, env, seq):
        n = next(_CELLS)
        env["<cell:%d>" % n] = seq
        return CellRef(n)

    def deref(self, v, env, _memo=None):
        """Replace CellRefs by their final contents (deep)."""
        if _memo is None:
            _memo = {}
        if id(v) in _memo:
            return _memo[id(v)]
        if isinstance(v, CellRef):
            inner = env.get("<cell:%d>" % v.n)
            if inner is None:
                return v        # a cell of an enclosing frame
            _memo[id(v)] = inner  # cut cycles
            r = self.deref(inner, env, _memo)
            _memo[id(v)] = r
            return r
        _memo[id(v)] = v
        changed = False
        new = {}
        for f in v.fields:
            x = getattr(v, f)
            if isinstance(x, V):
                y = self.deref(x, env, _memo)
                changed |= y is not x
                new[f] = y
            elif isinstance(x, tuple):
                ys = tuple(self.deref(e, env, _memo) if isinstance(e, V)
                           else e for e in x)
                changed |= any(a is not b for a, b in zip(x, ys))
                new[f] = ys
            elif isinstance(x, list):
                ys = [self.deref(e, env, _memo) if isinstance(e, V) else e
                      for e in x]
                changed |= any(a is not b for a, b in zip(x, ys))
                new[f] = ys
            elif isinstance(x, dict):
                ys = {k: (self.deref(e, env, _memo) if isinstance(e, V)
                          else e) for k, e in x.items()}
                changed |= any(x[k] is not ys[k] for k in x)
                new[f] = ys
        if not changed:
            return v
        import copy
        c = copy.copy(v)
        for f, y in new.items():
            setattr(c, f, y)
        _memo[id(v)] = c
        return c

    # -- statements -------------------------------------------------------
    def trace(self, env, item):
        env["<trace>"] = Seq(env["<trace>"].items + (item,))

    def block(self, stmts, env, stack, in_loop=False):
        """Returns (kind, value, env); kind in fall/ret/raise/cont/brk."""
        for i, st in enumerate(stmts):
            rest = stmts[i + 1:]
            if isinstance(st, ast.If):
                return self._branch(
                    self.test_text(st.test, env), st.body, st.orelse, rest,
                    env, stack, st.lineno)
            if isinstance(st, ast.Try):
                return self._try(st, rest, env, stack)
            kind, value, env = self.stmt(st, env, stack)
            if kind != "fall":
                return kind, value, env
        return "fall", None, env

    def test_text(self, test, env):
        """Source text of a compile-time test with local aliases of simple
        values (``local = node.local``) substituted, so that two tests on
        the same fact read the same."""
        sub = {}
        for n in ast.walk(test):
            if isinstance(n, ast.Name) and n.id in env:
                v = env[n.id]
                if isinstance(v, Field) and isinstance(
                        v.base, (Param, Field, LoopVar)):
                    sub[n.id] = show(v)
                elif isinstance(v, LoopVar):
                    sub[n.id] = v.canon
        if not sub:
            return src(test, 4000)

        class T(ast.NodeTransformer):
            def visit_Name(self, n):
                if n.id in sub:
                    return ast.parse(sub[n.id], mode="eval").body
                return n
        import copy
        try:
            return src(T().visit(clone_ast(test)), 4000)
        except SyntaxError:
            return src(test, 4000)

    def _branch(self, test, body, orelse, rest, env, stack, lineno,
                pre_a=None):
        ea = dict(env)
        if pre_a:
            pre_a(ea)
        ka, va, ea = self.block(body, ea, stack)
        eb = dict(env)
        kb, vb, eb = self.block(orelse, eb, stack)
        if ka == "fall" and kb == "fall":
            env = self.merge(test, ea, eb, lineno, env)
            return self.block(rest, env, stack)
        if ka == "raise" and kb == "fall":
            self.trace(eb, Alt(test, Seq((Raise(va, lineno),)), Seq(), lineno))
            return self.block(rest, eb, stack)
        if kb == "raise" and ka == "fall":
            self.trace(ea, Alt(test, Seq(), Seq((Raise(vb, lineno),)), lineno))
            return self.block(rest, ea, stack)
        if ka == "fall":
            ka, va, ea = self.block(rest, ea, stack)
        if kb == "fall":
            kb, vb, eb = self.block(rest, eb, stack)
        return self._combine(test, (ka, va, ea), (kb, vb, eb), lineno)

    def _combine(self, test, A, B, lineno):
        ka, va, ea = A
        kb, vb, eb = B
        if ka == "raise" and kb != "raise":
            self.trace(eb, Alt(test, Seq((Raise(va, lineno),)), Seq(), lineno))
            return kb, vb, eb
        if kb == "raise" and ka != "raise":
            self.trace(ea, Alt(test, Seq(), Seq((Raise(vb, lineno),)), lineno))
            return ka, va, ea
        norm = {"fall": "ret", "cont": "cont", "brk": "cont"}
        ka2, kb2 = norm.get(ka, ka), norm.get(kb, kb)
        if ka == "fall":
            va = Const(None)
        if kb == "fall":
            vb = Const(None)
        env = self.merge(test, ea, eb, lineno)
        if ka2 == kb2:
            if ka2 == "ret":
                va = self.deref_partial(va, ea)
                vb = self.deref_partial(vb, eb)
                value = va if va is vb else Alt(test, va, vb, lineno)
                return "ret", value, env
            if ka2 == "raise":
                return "raise", Alt(test, va, vb, lineno), env
            return ka, None, env
        # ret vs cont etc. -- not met in the repo
        return ka, va, env

    def deref_partial(self, v, env):
        # returned cell refs must be resolved against the branch's own env
        return self.deref(v, env) if v is not None else v

    @staticmethod
    def _runs(base_items, new_items):
        """new_items = base_items with runs of fresh items inserted ->
        runs[i] = items inserted before base item i (len(base) = at end);
        None if base items were removed or reordered."""
        runs = [[] for _ in range(len(base_items) + 1)]
        j = 0
        for it in new_items:
            if j < len(base_items) and it is base_items[j]:
                j += 1
            else:
                runs[j].append(it)
        if j != len(base_items):
            return None
        return runs

    def merge(self, test, ea, eb, lineno=0, base=None):
        env = {}
        base = base or {}
        for k in set(ea) | set(eb):
            a, b = ea.get(k, UNDEF), eb.get(k, UNDEF)
            if a is b:
                env[k] = a
            elif k.startswith("<cell:") and (a is UNDEF or b is UNDEF):
                env[k] = a if a is not UNDEF else b
            elif isinstance(a, Seq) and isinstance(b, Seq):
                c = base.get(k)
                ra = rb = None
                if isinstance(c, Seq):
                    ra = self._runs(c.items, a.items)
                    rb = self._runs(c.items, b.items)
                if ra is not None and rb is not None:
                    items = []
                    for i in range(len(c.items) + 1):
                        if ra[i] or rb[i]:
                            items.append(Alt(test, Seq(ra[i]), Seq(rb[i]),
                                             lineno))
                        if i < len(c.items):
                            items.append(c.items[i])
                    env[k] = Seq(items)
                    continue
                n = 0
                for x, y in zip(a.items, b.items):
                    if x is not y:
                        break
                    n += 1
                ra, rb = a.items[n:], b.items[n:]
                env[k] = Seq(a.items[:n] + (
                    Alt(test, Seq(ra), Seq(rb), lineno),))
            elif k.startswith("<") and not k.startswith("<cell"):
                env[k] = a if a is not UNDEF else b
            else:
                env[k] = Alt(test, a, b, lineno)
        return env

    def _try(self, st, rest, env, stack):
        # house idiom:  try: x = M[K]  except KeyError: A  else: B
        handlers = st.handlers
        names = [src(h.type) if h.type is not None else "<bare>"
                 for h in handlers]
        if len(handlers) == 1 and len(st.body) == 1 and \
                isinstance(st.body[0], ast.Assign) and \
                isinstance(st.body[0].value, ast.Subscript) and \
                names[0] in ("KeyError", "IndexError") and not st.finalbody:
            sub = st.body[0].value
            test = "has %s[%s]" % (src(sub.value), src(sub.slice))
            return self._branch(
                test, st.body + st.orelse, handlers[0].body, rest, env, stack,
                st.lineno)
        # generic: the protected body on the normal path; each handler as an
        # alternative that replaces (the effects of) the body.
        if st.finalbody:
            body = st.body + st.orelse
            k, v, env2 = self.block(body, dict(env), stack)
            if k == "fall":
                k, v, env2 = self.block(st.finalbody, env2, stack)
                if k == "fall":
                    return self.block(rest, env2, stack)
            else:
                _, _, env2 = self.block(st.finalbody, env2, stack)
            return k, v, env2
        test = "no exception in try@%d" % st.lineno
        ea = dict(env)
        ka, va, ea = self.block(st.body + st.orelse, ea, stack)
        hb = []
        for h in handlers:
            hb = h.body  # only the last handler is modelled as alternative
        eb = dict(env)
        kb, vb, eb = self.block(hb, eb, stack)
        if ka == "fall" and kb == "fall":
            return self.block(rest, self.merge(test, ea, eb, st.lineno, env), stack)
        if kb == "raise" and ka == "fall":
            return self.block(rest, ea, stack)
        if ka == "fall":
            ka, va, ea = self.block(rest, ea, stack)
        if kb == "fall":
            kb, vb, eb = self.block(rest, eb, stack)
        return self._combine(test, (ka, va, ea), (kb, vb, eb), st.lineno)

    def stmt(self, st, env, stack):
        ev = lambda n: self.ev(n, env, stack)  # noqa: E731
        if isinstance(st, ast.Assign):
            value = ev(st.value)
            for t in st.targets:
                self.assign(t, value, env, stack, st)
            return "fall", None, env
        if isinstance(st, ast.AnnAssign):
            if st.value is not None:
                self.assign(st.target, ev(st.value), env, stack, st)
            return "fall", None, env
        if isinstance(st, ast.AugAssign):
            value = ev(st.value)
            if isinstance(st.target, ast.Name) and isinstance(st.op, ast.Add):
                cur = env.get(st.target.id, UNDEF)
                if isinstance(value, Gen):
                    self._consume(value, env)
                if isinstance(cur, CellRef):
                    key = "<cell:%d>" % cur.n
                    env[key] = concat(env[key], value)
                elif isinstance(cur, Const) and isinstance(cur.value, str):
                    env[st.target.id] = self._str_add(cur, value)
                else:
                    env[st.target.id] = concat(cur, value)
            elif isinstance(st.target, ast.Name):
                env[st.target.id] = Sym(src(st))
            else:
                self.trace(env, Effect("augassign", src(st.target), value,
                                       st.lineno))
            return "fall", None, env
        if isinstance(st, ast.Expr):
            v = st.value
            if isinstance(v, ast.Yield):
                item = ev(v.value) if v.value is not None else Const(None)
                env["<out>"] = Seq(env["<out>"].items + (item,))
                return "fall", None, env
            if isinstance(v, ast.YieldFrom):
                val = ev(v.value)
                if isinstance(val, Gen):
                    self._consume(val, env)
                env["<out>"] = concat(env["<out>"], val)
                return "fall", None, env
            if isinstance(v, ast.Constant):
                return "fall", None, env
            val = ev(v)
            if isinstance(val, Gen):
                self.trace(env, Effect("discarded-generator", val.call_text,
                                       None, st.lineno))
            return "fall", None, env
        if isinstance(st, ast.Return):
            v = ev(st.value) if st.value is not None else Const(None)
            if isinstance(v, Gen):
                self._consume(v, env)
                v = v.seq
            return "ret", v, env
        if isinstance(st, ast.Raise):
            return "raise", ev(st.exc) if st.exc is not None else \
                Sym("<reraise>"), env
        if isinstance(st, ast.Continue):
            return "cont", None, env
        if isinstance(st, ast.Break):
            return "brk", None, env
        if isinstance(st, ast.Pass):
            return "fall", None, env
        if isinstance(st, ast.FunctionDef):
            env[st.name] = Closure(st, env, env["<module>"])
            return "fall", None, env
        if isinstance(st, ast.Assert):
            ev(st.test)
            self.trace(env, Guard("assert " + src(st.test), st.lineno))
            return "fall", None, env
        if isinstance(st, (ast.For, ast.While)):
            return self._loop(st, env, stack)
        if isinstance(st, ast.With):
            return self.block(st.body, env, stack)
        if isinstance(st, ast.Delete):
            for t in st.targets:
                self.trace(env, Effect("del", src(t), None, st.lineno))
            return "fall", None, env
        if isinstance(st, (ast.Global, ast.Nonlocal, ast.Import,
                           ast.ImportFrom)):
            return "fall", None, env
        if isinstance(st, ast.ClassDef):
            env[st.name] = Sym("<class %s>" % st.name, st)
            return "fall", None, env
        self.trace(env, Opaque(src(st), st.lineno))
        return "fall", None, env

    def _consume(self, gen, env):
        for it in gen.trace.items:
            self.trace(env, it)
        gen.trace = Seq()

    def _str_add(self, a, b):
        if isinstance(a, Const) and isinstance(b, Const) and \
                isinstance(a.value, str) and isinstance(b.value, str):
            return Const(a.value + b.value)
        return Fmt("%s%s", (a, b))

    def assign(self, target, value, env, stack, st):
        if isinstance(target, ast.Name):
            env[target.id] = value
            return
        if isinstance(target, (ast.Tuple, ast.List)):
            if isinstance(value, Gen):
                self._consume(value, env)
                value = value.seq
            items = None
            if isinstance(value, (Tup, Seq)) and \
                    len(value.items) == len(target.elts):
                items = value.items
            for i, t in enumerate(target.elts):
                if items is not None:
                    self.assign(t, items[i], env, stack, st)
                else:
                    self.assign(t, CallV("proj", Const(i), (value,)), env,
                                stack, st)
            return
        if isinstance(target, ast.Subscript):
            base = target.value
            if isinstance(base, ast.Name) and isinstance(target.slice, ast.Slice) \
                    and target.slice.lower is None and \
                    target.slice.upper is None:
                cur = env.get(base.id)
                if isinstance(value, Gen):
                    self._consume(value, env)
                    value = value.seq
                if isinstance(cur, CellRef):
                    env["<cell:%d>" % cur.n] = Seq(items_of(
                        self.deref(value, env)))
                else:
                    env[base.id] = value
                return
            eff = Effect(
                "setitem", src(target.value),
                Tup((self.ev(target.slice, env, stack), value)), st.lineno)
            # the object written to, as the interpreter knows it (a local
            # alias of ``self._x[-1]`` is that object)
            try:
                eff.obj = self.ev(target.value, env, stack)
            except AnalysisError:
                eff.obj = None
            self.trace(env, eff)
            return
        if isinstance(target, ast.Attribute):
            self.trace(env, Effect("set", src(target), value, st.lineno))
            if isinstance(target.value, ast.Name) and \
                    target.value.id == "self":
                env["<self.%s>" % target.attr] = value
            return
        if isinstance(target, ast.Starred):
            self.assign(target.value, value, env, stack, st)

    def bind_loop(self, target, it, env):
        def rec(t, path):
            if isinstance(t, ast.Name):
                env[t.id] = LoopVar(t.id, it, path)
            elif isinstance(t, (ast.Tuple, ast.List)):
                for i, e in enumerate(t.elts):
                    rec(e, path + "[%d]" % i)
            elif isinstance(t, ast.Starred):
                rec(t.value, path)
        rec(target, "")

    def _loop(self, st, env, stack):
        if isinstance(st, ast.While):
            it = Sym("while " + src(st.test))
            var = None
        else:
            it = self.ev(st.iter, env, stack)
            var = st.target
        if isinstance(it, Gen):
            self._consume(it, env)
            it = it.seq
        rev = False
        if isinstance(it, Rev):
            rev = True
            it = it.arg
        # concrete tuple -> unroll
        if var is not None and isinstance(it, Tup) and len(it.items) <= 16 \
                and not st.orelse:
            seq = list(it.items)
            if rev:
                seq.reverse()
            for item in seq:
                self.assign(var, item, env, stack, st)
                k, v, env = self.block(st.body, env, stack)
                if k in ("ret", "raise"):
                    return k, v, env
                if k == "brk":
                    break
            return "fall", None, env
        name = ("each(%s)" % show(it, 1)) if var is not None else "<while>"
        e2 = dict(env)
        # fresh accumulators so that the body's emissions can be isolated
        if var is not None:
            self.bind_loop(var, it, e2)
        k, v, e2 = self.block(st.body, e2, stack)
        if k == "ret":
            # "for m in finditer: ...; break/return" -- search loops
            self.trace(env, Opaque("return inside loop", st.lineno))
        out = dict(env)
        for key in set(e2) | set(env):
            a, b = env.get(key, UNDEF), e2.get(key, UNDEF)
            if a is b:
                out[key] = a
            elif key.startswith("<cell:") and a is UNDEF:
                out[key] = b
            elif isinstance(a, Seq) and isinstance(b, Seq) and \
                    self._runs(a.items, b.items) is not None:
                runs = self._runs(a.items, b.items)
                items = []
                for i in range(len(a.items) + 1):
                    if runs[i]:
                        items.append(Loop(name, it, Seq(runs[i]), rev,
                                          st.lineno))
                    if i < len(a.items):
                        items.append(a.items[i])
                out[key] = Seq(items)
            elif key.startswith("<") and not key.startswith("<cell"):
                out[key] = a if a is not UNDEF else b
            elif isinstance(var, ast.Name) and key == var.id:
                out[key] = b
            else:
                out[key] = Loop(name, it, b, rev, st.lineno)
        if st.orelse:
            k2, v2, out = self.block(st.orelse, out, stack)
            if k2 in ("ret", "raise"):
                if k2 == "raise":
                    self.trace(out, Alt("loop exhausted", Seq(
                        (Raise(v2, st.lineno),)), Seq(), st.lineno))
                else:
                    return k2, v2, out
        return "fall", None, out

    # -- expressions ------------------------------------------------------
    def ev(self, node, env, stack):
        if node is None:
            return Const(None)
        m = getattr(self, "ev_" + type(node).__name__, None)
        if m is None:
            return Sym(src(node), node)
        return m(node, env, stack)

    def ev_Constant(self, node, env, stack):
        return Const(node.value)

    def ev_Name(self, node, env, stack):
        if node.id in env:
            return env[node.id]
        if node.id in ("None", "True", "False"):
            return Const({"None": None, "True": True, "False": False}[node.id])
        module = env["<module>"]
        r = self.repo.resolve(module, node.id)
        if r is None:
            return Sym(node.id, node)
        if r[0] == "func":
            return FuncRef(r[1])
        if r[0] == "class":
            return self._clsref(r[1])
        if r[0] == "const":
            fac = self._factory(r[1], r[2], node.id)
            if fac is not None:
                return fac
            try:
                return Const(self.repo.fold(r[1], r[2]))
            except NotConst:
                return Sym(node.id, node)
        if r[0] == "module":
            return Sym("<module %s>" % r[1].name, node)
        return Sym(r[1], node)

    def _clsref(self, ci):
        if ci.module.name == "chameleon.nodes":
            return ClsRef("nodes", ci.name)
        if ci.name in INTERNAL_NODES:
            return ClsRef("internal", ci.name)
        if ci.module.name == "chameleon.exc":
            return ClsRef("exc", ci.name)
        return ClsRef("other", ci.name)

    def _factory(self, valnode, module, name):
        """module-level ``emit_x = template(is_func=True, ...)``"""
        if not (isinstance(valnode, ast.Call) and
                isinstance(valnode.func, ast.Name) and
                valnode.func.id == "template"):
            return None
        kw = {k.arg: k.value for k in valnode.keywords}
        try:
            if not (kw.get("is_func") is not None and
                    self.repo.fold(kw["is_func"], module)):
                return None
            source = kw.get("source")
            if source is None and valnode.args:
                source = valnode.args[0]
            fac = dict(
                name=name,
                source=self.repo.fold(source, module),
                args=tuple(self.repo.fold(kw["func_args"], module))
                if "func_args" in kw else (),
                defaults=kw.get("func_defaults"),
                module=module, lineno=valnode.lineno)
        except NotConst:
            return None
        return Sym("<factory %s>" % name, ("factory", fac))

    def ev_Attribute(self, node, env, stack):
        d = node
        if isinstance(d.value, ast.Name):
            base = d.value.id
            if base == "ast" and base not in env:
                if d.attr in AST_FIELDS:
                    return ClsRef("ast", d.attr)
                return Sym(src(node), node)
            if base == "self" and isinstance(env.get("self"), SelfV):
                cls = env.get("<cls>")
                if cls is not None:
                    f = self.repo.method(cls, d.attr)
                    if f is not None:
                        return Partial(FuncRef(f), (SelfV(),))
                    inst = self._self_attr_class(cls, d.attr)
                    if inst is not None:
                        return Instance(inst, "self." + d.attr)
                return Field(SelfV(), d.attr)
            if base not in env:
                r = self.repo.resolve(env["<module>"], base)
                if r and r[0] == "module":
                    r2 = self.repo.resolve(r[1], d.attr)
                    if r2 and r2[0] == "class":
                        return self._clsref(r2[1])
                    if r2 and r2[0] == "func":
                        return FuncRef(r2[1])
                    if r2 and r2[0] == "const":
                        try:
                            return Const(self.repo.fold(r2[1], r2[2]))
                        except NotConst:
                            return Sym(src(node), node)
                if r and r[0] in ("ext",):
                    return Sym(src(node), node)
                if r is None:
                    return Sym(src(node), node)
        base = self.ev(d.value, env, stack)
        return Field(base, d.attr)

    def _self_attr_class(self, cls, attr):
        """``self.<attr> = SomeClass(...)`` in ``__init__`` -> that class."""
        for k in self.repo.mro(cls):
            init = k.methods.get("__init__")
            if init is None:
                continue
            for n in ast.walk(init.node):
                if isinstance(n, ast.Assign) and isinstance(n.value, ast.Call):
                    for t in n.targets:
                        if isinstance(t, ast.Attribute) and t.attr == attr \
                                and isinstance(t.value, ast.Name) and \
                                t.value.id == "self":
                            r = self.repo.resolve_attr(k.module, n.value.func)
                            if r and r[0] == "class":
                                return r[1]
            for n in ast.walk(init.node):
                # a = b = SomeClass(...) chains (self._visitor = visitor = X())
                if isinstance(n, ast.Assign) and len(n.targets) > 1:
                    pass
        return None

    def ev_Tuple(self, node, env, stack):
        return Tup([self.ev(e, env, stack) for e in node.elts])

    def ev_List(self, node, env, stack):
        items = []
        for e in node.elts:
            if isinstance(e, ast.Starred):
                items.extend(items_of(self.ev(e.value, env, stack)))
            else:
                items.append(self.ev(e, env, stack))
        return self.new_cell(env, Seq(items))

    def ev_Set(self, node, env, stack):
        return Tup([self.ev(e, env, stack) for e in node.elts])

    def ev_Dict(self, node, env, stack):
        return DictV([self.ev(k, env, stack) for k in node.keys],
                     [self.ev(v, env, stack) for v in node.values])

    def ev_IfExp(self, node, env, stack):
        a = self.ev(node.body, env, stack)
        b = self.ev(node.orelse, env, stack)
        return Alt(self.test_text(node.test, env), a, b, node.lineno)

    def ev_BoolOp(self, node, env, stack):
        vals = [self.ev(v, env, stack) for v in node.values]
        if isinstance(node.op, ast.Or) and len(vals) == 2:
            return Alt("truthy(%s)" % src(node.values[0]), vals[0], vals[1],
                       node.lineno)
        return Sym(src(node), node)

    def ev_Lambda(self, node, env, stack):
        return Closure(node, env, env["<module>"])

    def ev_Starred(self, node, env, stack):
        return self.ev(node.value, env, stack)

    def ev_JoinedStr(self, node, env, stack):
        return Sym(src(node), node)

    def ev_Subscript(self, node, env, stack):
        base = self.ev(node.value, env, stack)
        if isinstance(base, DictV) and all(
                isinstance(v, Const) for v in base.values):
            return OneOf(list(base.values), src(node.slice))
        if isinstance(node.slice, ast.Constant) and \
                isinstance(base, (Tup, Seq)):
            try:
                return base.items[node.slice.value]
            except Exception:
                pass
        return CallV("getitem", None,
                     (base, self.ev(node.slice, env, stack)),
                     lineno=node.lineno)

    def ev_Slice(self, node, env, stack):
        return Sym(src(node), node)

    def ev_Compare(self, node, env, stack):
        return Sym(src(node), node)

    def ev_UnaryOp(self, node, env, stack):
        return Sym(src(node), node)

    def ev_ListComp(self, node, env, stack):
        return self._comp(node, env, stack)

    def ev_GeneratorExp(self, node, env, stack):
        return self._comp(node, env, stack)

    def ev_SetComp(self, node, env, stack):
        return self._comp(node, env, stack)

    def _comp(self, node, env, stack):
        if len(node.generators) != 1:
            return Sym(src(node), node)
        g = node.generators[0]
        it = self.ev(g.iter, env, stack)
        if isinstance(it, Gen) and not g.ifs and isinstance(
                g.target, ast.Name) and isinstance(node.elt, ast.Name) and \
                node.elt.id == g.target.id:
            # [x for x in generator()]: the generator's items as they are
            self._consume(it, env)
            return it.seq
        e2 = dict(env)
        self.bind_loop(g.target, it, e2)
        body = self.ev(node.elt, e2, stack)
        for k, v in e2.items():
            if k.startswith("<cell:") and k not in env:
                env[k] = v
        env["<trace>"] = e2["<trace>"]
        if g.ifs:
            body = Alt(" and ".join(src(i, 4000) for i in g.ifs), body, Seq(),
                       node.lineno)
        rev = isinstance(it, Rev)
        return Seq((Loop("each(%s)" % show(it.arg if isinstance(it, Rev)
                                            else it, 1),
                         it.arg if isinstance(it, Rev) else it,
                         Seq((body,)), rev, node.lineno),))

    def ev_BinOp(self, node, env, stack):
        a = self.ev(node.left, env, stack)
        b = self.ev(node.right, env, stack)
        if isinstance(node.op, ast.Add):
            if isinstance(a, Const) and isinstance(a.value, (str, int)) or \
                    isinstance(b, Const) and isinstance(b.value, str):
                if isinstance(a, Const) and isinstance(b, Const):
                    try:
                        return Const(a.value + b.value)
                    except Exception:
                        return Sym(src(node), node)
                return Fmt("%s%s", (a, b))
            if isinstance(a, (Fmt, Field, Param, LoopVar)) and not \
                    self._listy(b):
                return Fmt("%s%s", (a, b))
            for g in (a, b):
                if isinstance(g, Gen):
                    self._consume(g, env)
            a = self.deref(a, env) if isinstance(a, CellRef) else a
            b = self.deref(b, env) if isinstance(b, CellRef) else b
            return concat(a, b)
        if isinstance(node.op, ast.Mod) and isinstance(a, Const) and \
                isinstance(a.value, str):
            args = b.items if isinstance(b, Tup) else (b,)
            if all(isinstance(x, Const) for x in args):
                try:
                    return Const(a.value % tuple(x.value for x in args))
                except Exception:
                    pass
            if a.value.startswith("__") and len(args) == 1:
                # "__prefix_%s" % mangle(id(node))  -> generated identifier
                fmt = a.value
                if fmt.endswith("_%s"):
                    return Ident(Const(fmt[2:-3]), args[0], "format",
                                 node.lineno)
            return Fmt(a.value, args)
        if isinstance(node.op, ast.BitOr):
            return CallV("union", None, (a, b), lineno=node.lineno)
        return Sym(src(node), node)

    @staticmethod
    def _listy(v):
        return isinstance(v, (Seq, CellRef, Frag, Child, Eval, Gen, Loop))

    # -- calls ------------------------------------------------------------
    def ev_Call(self, node, env, stack):
        fn = node.func
        name = fn.id if isinstance(fn, ast.Name) else (
            fn.attr if isinstance(fn, ast.Attribute) else None)
        args = [self.ev(a, env, stack) for a in node.args
                if not isinstance(a, ast.Starred)]
        star = [self.ev(a.value, env, stack) for a in node.args
                if isinstance(a, ast.Starred)]
        kwargs = {k.arg: self.ev(k.value, env, stack)
                  for k in node.keywords if k.arg is not None}

        # method calls on local values / self attributes
        if isinstance(fn, ast.Attribute):
            r = self._method_call(node, fn, args, kwargs, env, stack)
            if r is not None:
                return r

        callee = self.ev(fn, env, stack)
        return self.apply(callee, args, kwargs, env, stack, node, star)

    def _method_call(self, node, fn, args, kwargs, env, stack):
        attr = fn.attr
        # list mutations on local variables
        if isinstance(fn.value, ast.Name) and fn.value.id in env and \
                fn.value.id != "self":
            cur = env[fn.value.id]
            var = fn.value.id
            if attr in ("append", "extend", "insert") and not isinstance(
                    cur, (Const, Tup, DictV, Sym, Param, Field, LoopVar,
                          Opaque, SelfV)):
                if attr == "append":
                    new = (args[0],)
                    pos = "end"
                elif attr == "extend":
                    if isinstance(args[0], Gen):
                        self._consume(args[0], env)
                    new = items_of(self.deref(args[0], env))
                    pos = "end"
                else:
                    new = (args[1],)
                    pos = "front" if isinstance(args[0], Const) and \
                        args[0].value == 0 else "unknown"
                if isinstance(cur, CellRef):
                    key = "<cell:%d>" % cur.n
                    old = env[key].items
                else:
                    old = items_of(cur)
                if pos == "end":
                    seq = Seq(old + new)
                elif pos == "front":
                    seq = Seq(new + old)
                else:
                    seq = Seq(old + (Opaque("insert at %s" % show(args[0]),
                                            node.lineno),) + new)
                if isinstance(cur, CellRef):
                    env[key] = seq
                else:
                    env[var] = seq
                return Const(None)
            if attr == "pop" and isinstance(cur, (CellRef, Seq)):
                return CallV("pop", None, (cur,) + tuple(args),
                             lineno=node.lineno)
            if attr == "copy" and isinstance(cur, (CellRef, Seq)):
                return self.deref(cur, env)
        # effects on self.<attr>
        tgt = fn.value
        text = src(tgt)
        if text.startswith("self.") and attr in (
                "append", "pop", "add", "insert", "extend", "update",
                "clear", "remove", "discard", "setdefault"):
            kind = {"append": "push", "pop": "pop", "add": "add"}.get(
                attr, attr)
            base = text
            # self._x[-1].add(..) -> effect on self._x top
            self.trace(env, Effect(kind, base, Tup(args) if args else None,
                                   node.lineno))
            return CallV(attr, None, [Sym(text)] + list(args),
                         lineno=node.lineno)
        return None

    def apply(self, callee, args, kwargs, env, stack, node, star=()):
        lineno = getattr(node, "lineno", 0)
        text = src(node)
        if isinstance(callee, Alt):
            a = self.apply(callee.a, args, kwargs, env, stack, node, star)
            b = self.apply(callee.b, args, kwargs, env, stack, node, star)
            return Alt(callee.test, a, b, callee.lineno)
        if isinstance(callee, Partial):
            return self.apply(callee.func, list(callee.args) + list(args),
                              {**callee.kwargs, **kwargs}, env, stack, node,
                              star)
        if isinstance(callee, ClsRef):
            if callee.space == "ast":
                fields = AST_FIELDS.get(callee.name, ())
                f = dict(zip(fields, args))
                f.update(kwargs)
                return Py(callee.name, f, lineno)
            if callee.space == "nodes":
                return NodeV(callee.name, args, kwargs, lineno)
            if callee.space == "internal":
                return Internal(callee.name, args, lineno)
            return CallV(callee.name, callee, args, kwargs, lineno)
        if isinstance(callee, Sym) and isinstance(callee.node, tuple) and \
                callee.node[0] == "factory":
            return self._apply_factory(callee.node[1], args, kwargs, env,
                                       lineno)
        if isinstance(callee, Closure):
            return self._call_closure(callee, args, kwargs, env, stack, node)
        if isinstance(callee, Instance):
            if callee.cls.name == "ExpressionTransform" and len(args) == 2:
                v = Eval(args[0], args[1], lineno, callee.text)
                self.trace(env, v)
                return v
            return CallV(callee.text, callee, args, kwargs, lineno)
        if isinstance(callee, FuncRef):
            return self._call_func(callee.func, args, kwargs, env, stack,
                                   node, star)
        if isinstance(callee, Sym):
            nm = callee.text
            if nm in ("list", "tuple", "iter"):
                if not args:
                    return self.new_cell(env, Seq()) if nm == "list" \
                        else Tup(())
                a = args[0]
                if isinstance(a, Gen):
                    self._consume(a, env)
                    return a.seq
                if isinstance(a, CellRef):
                    return self.deref(a, env)
                return a
            if nm == "reversed":
                a = args[0]
                if isinstance(a, Tup):
                    return Tup(tuple(reversed(a.items)))
                return Rev(a)
            if nm == "id":
                return IdOf(args[0])
            if nm in ("str", "int"):
                return args[0] if args else Const("")
            if nm == "partial" or nm.endswith("functools.partial"):
                return Partial(args[0], args[1:], kwargs)
            if nm == "map" and len(args) == 2:
                it = args[1]
                var = "<map>"
                body = self.apply(args[0], [LoopVar(var, it)], {}, env, stack,
                                  node)
                return Seq((Loop(var, it, Seq(items_of(body)), False,
                                 lineno),))
            if nm.endswith("itertools.chain") or nm == "chain":
                out = ()
                for a in list(args) + list(star):
                    out += items_of(a)
                return Seq(out)
            if nm == "set" and not args:
                return CallV("set", None, (), {}, lineno)
            if nm in ("isinstance", "len", "getattr", "bool", "repr",
                      "enumerate", "zip", "sorted", "filter", "set",
                      "frozenset", "dict", "hasattr", "type", "max", "min"):
                return CallV(nm, None, args, kwargs, lineno)
            if nm == "textwrap.dedent":
                return CallV("dedent", None, args, kwargs, lineno)
        if isinstance(callee, Field):
            return CallV(callee.attr, callee.base, args, kwargs, lineno)
        return CallV(name_of(callee, text), callee, args, kwargs, lineno)

    def _apply_factory(self, fac, args, kwargs, env, lineno):
        defaults = ()
        if fac["defaults"] is not None and \
                isinstance(fac["defaults"], (ast.Tuple, ast.List)):
            defaults = tuple(Sym(src(e), e) for e in fac["defaults"].elts)
        slots = dict(zip(fac["args"], tuple(args) + defaults))
        slots.update(kwargs)
        return Frag(fac["source"], "exec", slots, lineno, factory=fac["name"])

    def _call_closure(self, clo, args, kwargs, env, stack, node):
        fnode = clo.node
        key = "<closure %s@%d>" % (getattr(fnode, "name", "lambda"),
                                   fnode.lineno)
        if stack.count(key) >= 2 or len(stack) > self.max_depth + 4:
            return CallV("recur:" + key, None, args, kwargs,
                         getattr(node, "lineno", 0))
        e2 = dict(clo.env)
        # names bound later in the defining function are visible too
        for k, v in env.items():
            if k not in e2 or k.startswith("<"):
                e2[k] = v
        e2["<module>"] = clo.module
        params = [a.arg for a in fnode.args.posonlyargs + fnode.args.args]
        defaults = fnode.args.defaults
        for i, p in enumerate(params):
            if i < len(args):
                e2[p] = args[i]
            elif p in kwargs:
                e2[p] = kwargs[p]
            else:
                di = i - (len(params) - len(defaults))
                e2[p] = self.ev(defaults[di], clo.env, stack) if di >= 0 \
                    else Param(p)
        saved_out = e2.get("<out>")
        if isinstance(fnode, ast.Lambda):
            return self.ev(fnode.body, e2, stack + (key,))
        k, v, e3 = self.block(fnode.body, e2, stack + (key,))
        env["<trace>"] = e3["<trace>"]
        for kk, vv in e3.items():
            if kk.startswith("<cell:") or kk.startswith("<self."):
                env[kk] = vv
        if k == "ret":
            return v
        return Const(None)

    def _call_func(self, func, args, kwargs, env, stack, node, star=()):
        lineno = getattr(node, "lineno", 0)
        name = func.name
        q = func.qualname
        # --- primitives ---------------------------------------------------
        if q == "chameleon.codegen.template":
            return self._template(args, kwargs, env, stack, node)
        if name == "identifier" and func.cls is None:
            prefix = args[0] if args else kwargs.get("prefix")
            suffix = args[1] if len(args) > 1 else kwargs.get("suffix")
            return Ident(prefix, suffix, "identifier", lineno)
        if name == "mangle" and func.cls is None:
            return args[0]
        if name in ("store", "load", "param") and \
                func.module.name == "chameleon.astutil":
            return NameRef(args[0], name)
        if name == "indent" and func.cls is None:
            return CallV("indent", None, args, kwargs, lineno)
        if func.cls is not None and args and isinstance(args[0], SelfV):
            if name == "visit" and func.cls.name in ("Compiler",):
                v = Child(args[1] if len(args) > 1 else Const(None), lineno)
                self.trace(env, v)
                return v
            if name == "visit" and func.cls.name in ("ElementProgram",
                                                     "MacroProgram"):
                v = Child(Tup(list(args[1:]) + list(star)), lineno)
                self.trace(env, v)
                return v
        # --- inlining -----------------------------------------------------
        inline = (func.module.name in INLINE_MODULES and
                  name not in NO_INLINE and
                  len(func.node.body) <= 60)
        if func.cls is not None and not (args and isinstance(args[0], SelfV)):
            inline = False
        if not inline or len(stack) > self.max_depth or q in stack:
            return CallV(name, FuncRef(func), args, kwargs, lineno)
        fnode = func.node
        params = [a.arg for a in fnode.args.posonlyargs + fnode.args.args]
        bound = {}
        pos = list(args)
        for i, p in enumerate(params):
            if i < len(pos):
                bound[p] = pos[i]
            elif p in kwargs:
                bound[p] = kwargs[p]
            else:
                di = i - (len(params) - len(fnode.args.defaults))
                if di >= 0:
                    bound[p] = self.ev(fnode.args.defaults[di], {
                        "<module>": func.module, "<trace>": Seq(),
                        "<out>": Seq()}, stack)
        if fnode.args.vararg:
            bound[fnode.args.vararg.arg] = Tup(pos[len(params):] + list(star))
        sub = Interp(self.repo, self.max_depth)
        res = sub.run(func, bound, stack)
        if res.is_gen:
            return Gen(res.out, src(node), res.trace)
        for it in res.trace.items:
            self.trace(env, it)
        return res.value

    def _template(self, args, kwargs, env, stack, node):
        lineno = getattr(node, "lineno", 0)
        kwargs = dict(kwargs)
        source = args[0] if args else kwargs.pop("source", None)
        mode = kwargs.pop("mode", Const("exec"))
        mode = mode.value if isinstance(mode, Const) else "exec"
        for k in ("is_func", "func_args", "func_defaults"):
            kwargs.pop(k, None)
        alts = self.fold_str(source)
        if alts is None:
            return Frag(None, mode, kwargs, lineno, opaque=True)
        out = None
        for conds, text in reversed(alts):
            fr = Frag(text, mode, kwargs, lineno)
            if out is None:
                out = fr
            else:
                out = Alt(" & ".join(conds) or "<alt>", fr, out, lineno)
        return out

    def fold_str(self, v, limit=8):
        """Abstract string -> [(conditions, text)] or None."""
        if isinstance(v, Const):
            return [((), v.value)] if isinstance(v.value, str) else None
        if isinstance(v, Alt):
            a, b = self.fold_str(v.a), self.fold_str(v.b)
            if a is None or b is None:
                return None
            return [((v.test,) + c, t) for c, t in a] + \
                   [(("not (%s)" % v.test,) + c, t) for c, t in b]
        if isinstance(v, OneOf):
            out = []
            for o in v.options:
                if not isinstance(o, Const):
                    return None
                out.append((("%s -> %r" % (v.key, o.value),), o.value))
            return out
        if isinstance(v, Fmt):
            parts = [self.fold_str(a) for a in v.args]
            if any(p is None for p in parts):
                return None
            combos = [((), ())]
            for p in parts:
                combos = [(c + c2, t + (t2,)) for c, t in combos
                          for c2, t2 in p]
                if len(combos) > limit:
                    return None
            out = []
            for c, t in combos:
                try:
                    out.append((c, v.fmt % t))
                except Exception:
                    return None
            return out
        if isinstance(v, CallV) and v.name == "indent" and v.args:
            inner = self.fold_str(v.args[0])
            if inner is None:
                return None
            return [(c, textwrap.indent(t, "    ") if t else "")
                    for c, t in inner]
        return None


def name_of(callee, text):
    if isinstance(callee, Sym):
        return callee.text
    if isinstance(callee, Field):
        return show(callee)
    if isinstance(callee, FuncRef):
        return callee.func.name
    return text.split("(")[0][:60]


# ---------------------------------------------------------------------------
# queries over emission trees


def flatten(v, conds=()):
    """Yield (item, conds, path) for every leaf segment of a list-valued
    abstract value in emission order, descending into Alt and Loop."""
    if isinstance(v, (Seq, Gen, Tup)):
        for it in items_of(v):
            yield from flatten(it, conds)
    elif isinstance(v, Alt):
        yield from flatten(v.a, conds + (("if", v.test),))
        yield from flatten(v.b, conds + (("else", v.test),))
    elif isinstance(v, Loop):
        yield from flatten(v.body, conds + (("loop", v.var),))
    elif isinstance(v, Const) and v.value in (None, ()):
        return
    else:
        yield v, conds


def frag_names(frag):
    """Generated-code names a fragment stores / loads / deletes, with slot
    substitution.  Returns list of (ctx, name_or_value, ast_node)."""
    out = []
    if frag.tree is None:
        return out
    aug = {id(n.target) for n in ast.walk(frag.tree)
           if isinstance(n, ast.AugAssign)}
    for n in ast.walk(frag.tree):
        if isinstance(n, ast.Name) and id(n) in aug:
            # x -= 1 reads x before it stores it
            v = frag.slots.get(n.id, n.id)
            out.append(("load", v, n))
            out.append(("store", v, n))
            continue
        if isinstance(n, ast.Name):
            ctx = type(n.ctx).__name__.lower()
            if n.id in frag.slots:
                out.append((ctx, frag.slots[n.id], n))
            else:
                out.append((ctx, n.id, n))
        elif isinstance(n, ast.FunctionDef):
            if n.name in frag.slots:
                out.append(("store", frag.slots[n.name], n))
            else:
                out.append(("store", n.name, n))
    return out


def ident_key(v):
    """Normalise a slot value / identifier to a comparable key."""
    if isinstance(v, str):
        return ("lit", v)
    if isinstance(v, NameRef):
        return ident_key(v.ident)
    if isinstance(v, Const):
        return ("lit", v.value)
    if isinstance(v, Ident):
        return ("ident", show(v.prefix), show(v.suffix)
                if v.suffix is not None else None)
    return ("val", show(v))


def per_node(v):
    """Does this generated identifier embed the identity of the node (or of a
    per-node object) it is emitted for?  -> (bool, reason)"""
    if isinstance(v, NameRef):
        return per_node(v.ident)
    if isinstance(v, Ident):
        parts = [v.prefix] + ([v.suffix] if v.suffix is not None else [])
        shared = None
        for p in parts:
            for w in walk(p):
                if isinstance(w, IdOf):
                    # the identity of a *field* of the node (its name, a
                    # constant string; a child that several nodes may hold)
                    # is not the identity of the node
                    if isinstance(w.arg, Field) and isinstance(
                            w.arg.base, Param) and w.arg.attr != "names":
                        shared = show(w)
                        continue
                    return True, "embeds %s" % show(w)
        if shared is not None:
            return False, "%s is the identity of a field that nodes may " \
                          "share, not of the node" % shared
        if v.suffix is None and v.via == "identifier":
            return False, "identifier() without suffix: id(prefix) of a " \
                          "string constant is the same for every node"
        return False, "suffix %s is not an object identity" % show(v.suffix)
    if isinstance(v, (Const, str)):
        return False, "literal name"
    return False, "not an identifier: %s" % show(v)
