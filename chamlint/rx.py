"""E6: regular-expression ASTs (``re._parser``) -- first sets, nullability,
group nesting, character classes as exact interval sets over Unicode."""
from __future__ import annotations

import re
import sys

try:
    import re._parser as sre_parse
    import re._constants as C
except ImportError:  # pragma: no cover  (python < 3.11)
    import sre_parse
    import sre_constants as C

from .core import AnalysisError

MAXCP = sys.maxunicode


class CharSet:
    """A set of code points as sorted disjoint closed intervals."""

    __slots__ = ("iv",)

    def __init__(self, intervals=()):
        iv = sorted(intervals)
        out = []
        for a, b in iv:
            if out and a <= out[-1][1] + 1:
                out[-1] = (out[-1][0], max(out[-1][1], b))
            else:
                out.append((a, b))
        self.iv = tuple(out)

    @classmethod
    def of(cls, chars):
        return cls((ord(c), ord(c)) for c in chars)

    @classmethod
    def full(cls):
        return cls([(0, MAXCP)])

    def __or__(self, o):
        return CharSet(self.iv + o.iv)

    def complement(self):
        out = []
        prev = 0
        for a, b in self.iv:
            if a > prev:
                out.append((prev, a - 1))
            prev = b + 1
        if prev <= MAXCP:
            out.append((prev, MAXCP))
        return CharSet(out)

    def __and__(self, o):
        return (self.complement() | o.complement()).complement()

    def __sub__(self, o):
        return self & o.complement()

    def __le__(self, o):
        """subset"""
        return not (self - o)

    def __contains__(self, ch):
        cp = ord(ch) if isinstance(ch, str) else ch
        return any(a <= cp <= b for a, b in self.iv)

    def __eq__(self, o):
        return self.iv == o.iv

    def __bool__(self):
        return bool(self.iv)

    def issuperset(self, o):
        return not (o - self)

    def __repr__(self):
        def c(x):
            return repr(chr(x)) if 32 <= x < 127 else "U+%04X" % x
        return "{%s}" % ",".join(
            c(a) if a == b else "%s-%s" % (c(a), c(b)) for a, b in self.iv[:12]
        ) + ("..." if len(self.iv) > 12 else "")


_CAT = {}


def category(name):
    if name in _CAT:
        return _CAT[name]
    base = str(name).rsplit("_", 1)[-1] if "NOT" not in str(name) else None
    s = str(name)
    neg = "NOT_" in s
    kind = s.replace("CATEGORY_", "").replace("NOT_", "").replace(
        "UNI_", "").replace("LOC_", "")
    if kind == "SPACE":
        pred = str.isspace
    elif kind == "DIGIT":
        pred = str.isdecimal
    elif kind == "WORD":
        pred = lambda ch: ch.isalnum() or ch == "_"  # noqa: E731
    elif kind == "LINEBREAK":
        pred = lambda ch: ch == "\n"  # noqa: E731
    else:
        raise AnalysisError("regex category not modelled: %s" % s)
    iv = []
    start = None
    for cp in range(MAXCP + 1):
        if pred(chr(cp)):
            if start is None:
                start = cp
        elif start is not None:
            iv.append((start, cp - 1))
            start = None
    if start is not None:
        iv.append((start, MAXCP))
    cs = CharSet(iv)
    if neg:
        cs = cs.complement()
    _CAT[name] = cs
    return cs


def parse(pattern, flags=0):
    try:
        return sre_parse.parse(pattern, flags)
    except re.error as exc:
        raise AnalysisError("regex does not parse: %r (%s)" % (pattern, exc))


def in_set(items):
    neg = False
    cs = CharSet()
    for op, av in items:
        if op is C.NEGATE:
            neg = True
        elif op is C.LITERAL:
            cs |= CharSet([(av, av)])
        elif op is C.RANGE:
            cs |= CharSet([av])
        elif op is C.CATEGORY:
            cs |= category(av)
        else:
            raise AnalysisError("regex set item not modelled: %s" % (op,))
    return cs.complement() if neg else cs


class Info:
    """first set / nullability / zero-width constructs of a sub-pattern."""

    def __init__(self, first, nullable, zero_width=()):
        self.first = first
        self.nullable = nullable
        self.zero_width = tuple(zero_width)


def analyse(sub, dotall=False):
    """``sub`` is a SubPattern or a list of (op, av)."""
    first = CharSet()
    zw = []
    for op, av in sub:
        i = _item(op, av, dotall)
        first |= i.first
        zw.extend(i.zero_width)
        if not i.nullable:
            return Info(first, False, zw)
    return Info(first, True, zw)


def _item(op, av, dotall):
    if op is C.LITERAL:
        return Info(CharSet([(av, av)]), False)
    if op is C.NOT_LITERAL:
        return Info(CharSet([(av, av)]).complement(), False)
    if op is C.ANY:
        cs = CharSet.full()
        if not dotall:
            cs = cs - CharSet.of("\n")
        return Info(cs, False)
    if op is C.IN:
        return Info(in_set(av), False)
    if op is C.BRANCH:
        first = CharSet()
        nullable = False
        zw = []
        for alt in av[1]:
            i = analyse(alt, dotall)
            first |= i.first
            nullable |= i.nullable
            zw.extend(i.zero_width)
        return Info(first, nullable, zw)
    if op is C.SUBPATTERN:
        return analyse(av[3], dotall)
    if op in (C.MAX_REPEAT, C.MIN_REPEAT) or str(op) == "POSSESSIVE_REPEAT":
        lo, hi, body = av
        i = analyse(body, dotall)
        return Info(i.first, i.nullable or lo == 0, i.zero_width)
    if op is C.AT:
        return Info(CharSet(), True, [("AT", str(av))])
    if op in (C.ASSERT, C.ASSERT_NOT):
        direction, body = av
        return Info(CharSet(), True, [
            ("%s%s" % ("LOOKAHEAD" if direction > 0 else "LOOKBEHIND",
                       "_NOT" if op is C.ASSERT_NOT else ""), None)])
    if op is C.GROUPREF:
        return Info(CharSet.full(), True, [("GROUPREF", av)])
    if str(op) == "ATOMIC_GROUP":
        return analyse(av, dotall)
    if op is C.GROUPREF_EXISTS:
        return Info(CharSet.full(), True, [("GROUPREF_EXISTS", av[0])])
    raise AnalysisError("regex op not modelled: %s" % (op,))


def top_alternatives(sub):
    """Top-level alternatives of a pattern (after sre's prefix factoring the
    pattern may be ``prefix (?:a|b)``; then there is a single alternative)."""
    data = list(sub)
    if len(data) == 1 and data[0][0] is C.BRANCH:
        return [list(a) for a in data[0][1][1]]
    return [data]


def group_tree(sub):
    """-> {group_index: parent_group_index or 0}, {name: index}"""
    parents = {}

    def walk(items, parent):
        for op, av in items:
            if op is C.SUBPATTERN:
                gid = av[0]
                if gid is not None:
                    parents[gid] = parent
                walk(av[3], gid if gid is not None else parent)
            elif op is C.BRANCH:
                for alt in av[1]:
                    walk(alt, parent)
            elif op in (C.MAX_REPEAT, C.MIN_REPEAT) or \
                    str(op) == "POSSESSIVE_REPEAT":
                walk(av[2], parent)
            elif op in (C.ASSERT, C.ASSERT_NOT):
                walk(av[1], parent)
            elif str(op) == "ATOMIC_GROUP":
                walk(av, parent)
            elif op is C.GROUPREF_EXISTS:
                for part in av[1:]:
                    if part is not None:
                        walk(part, parent)
    walk(sub, 0)
    names = dict(sub.state.groupdict)
    return parents, names


def ancestors(parents, gid):
    out = []
    while parents.get(gid):
        gid = parents[gid]
        out.append(gid)
    return out


def char_class_of_single_set(sub):
    """If the pattern is exactly one character class return it, else None."""
    data = list(sub)
    if len(data) == 1 and data[0][0] is C.IN:
        return in_set(data[0][1])
    if len(data) == 1 and data[0][0] is C.LITERAL:
        return CharSet([(data[0][1], data[0][1])])
    return None


def locate_group(sub, gid):
    """-> (items of the group, chain) where chain lists, from the root down,
    the (sequence, index) positions that lead to the group; None if the
    pattern has no such capturing group."""
    def walk(items, chain):
        items = list(items)
        for i, (op, av) in enumerate(items):
            here = chain + [(items, i)]
            if op is C.SUBPATTERN:
                if av[0] == gid:
                    return av[3], here
                r = walk(av[3], here)
            elif op is C.BRANCH:
                r = None
                for alt in av[1]:
                    r = r or walk(alt, here)
            elif op in (C.MAX_REPEAT, C.MIN_REPEAT) or \
                    str(op) == "POSSESSIVE_REPEAT":
                r = walk(av[2], here)
            else:
                r = None
            if r:
                return r
        return None
    return walk(sub, [])


def all_chars(items):
    """union of the characters the items can consume (repeats, groups and
    alternatives descended into)"""
    cs = CharSet()
    for op, av in items:
        if op is C.IN:
            cs = cs | in_set(av)
        elif op is C.LITERAL:
            cs = cs | CharSet([(av, av)])
        elif op is C.NOT_LITERAL:
            cs = cs | CharSet([(av, av)]).complement()
        elif op is C.ANY:
            cs = cs | CharSet.full()
        elif op is C.BRANCH:
            for alt in av[1]:
                cs = cs | all_chars(alt)
        elif op in (C.MAX_REPEAT, C.MIN_REPEAT) or \
                str(op) == "POSSESSIVE_REPEAT":
            cs = cs | all_chars(av[2])
        elif op is C.SUBPATTERN:
            cs = cs | all_chars(av[3])
    return cs


def implied_before(sub, gid, ch):
    """Does participation of group ``gid`` imply that the single character
    ``ch`` was consumed by a mandatory item in front of it (a preceding
    sibling of the group or of one of its ancestors)?"""
    loc = locate_group(sub, gid)
    if loc is None:
        return False
    want = CharSet([(ord(ch), ord(ch))])
    for items, idx in loc[1]:
        for op, av in items[:idx]:
            one = [(op, av)]
            info = analyse(one)
            if not info.nullable and all_chars(one) == want:
                return True
    return False
